#!/bin/sh
# usage: run.sh <capy binary> [<mod dir containing core/>]
# exits 1 when the violation shows (the same definitions are accepted in one order / split and
# rejected in another), 0 otherwise
CAPY=$(readlink -f "$1")
HERE=$(cd "$(dirname "$0")" && pwd)
TMP=$(mktemp -d)
trap 'rm -rf "$TMP"' EXIT
if [ -n "$2" ]; then
    MODS=$(readlink -f "$2")
else
    # a copy of the core module of the repository the binary was built in
    MODS="$TMP/mods"
    mkdir -p "$MODS"
    cp -r "$(dirname "$CAPY")/../../core" "$MODS/core"
fi

outcome() {
    # prints ACCEPT:<exit code of the program> or REJECT
    cp -r "$HERE/$1" "$TMP/$1"
    (
        cd "$TMP/$1" || exit 1
        if timeout 20 "$CAPY" build main.capy --mod-dir "$MODS" >build.log 2>&1 && [ -x out/main ]; then
            timeout 20 ./out/main >run.log 2>&1
            echo "ACCEPT:$?"
        else
            echo "REJECT ($(sed 's/\x1b\[[0-9;]*m//g' build.log | grep -a -o 'circular definition.*' | head -1))"
        fi
    )
}

A=$(outcome accept)
R=$(outcome reject)
SA=$(outcome split_accept)
SR=$(outcome split_reject)
echo "one file,  G above H            : $A"
echo "one file,  H above G            : $R"
echo "two files, G in main, H in other: $SA"
echo "two files, H in main, G in other: $SR"
if [ "$A" != "$R" ] || [ "$SA" != "$SR" ] || [ "$A" != "$SA" ]; then
    echo "VIOLATION: the outcome depends on the order / the split of the definitions"
    exit 1
fi
exit 0
