#!/bin/sh
# usage: run.sh <capy binary> [<mod dir containing core/>]
# exits 1 when the two orders of `A` / `B` print different numbers, 0 otherwise
# NOTE: the comptime blocks of this program are impure (they call libc's rand()).
CAPY=$(readlink -f "$1")
HERE=$(cd "$(dirname "$0")" && pwd)
TMP=$(mktemp -d)
trap 'rm -rf "$TMP"' EXIT
if [ -n "$2" ]; then
    MODS=$(readlink -f "$2")
else
    MODS="$TMP/mods"
    mkdir -p "$MODS"
    cp -r "$(dirname "$CAPY")/../../core" "$MODS/core"
fi

outcome() {
    cp -r "$HERE/$1" "$TMP/$1"
    (
        cd "$TMP/$1" || exit 1
        if timeout 20 "$CAPY" build main.capy --mod-dir "$MODS" >build.log 2>&1 && [ -x out/main ]; then
            OUT=$(timeout 20 ./out/main 2>&1 | tr '\n' ' ')
            echo "ACCEPT: $OUT"
        else
            echo "REJECT"
        fi
    )
}

A=$(outcome order_a)
B=$(outcome order_b)
echo "A above B : $A"
echo "B above A : $B"
if [ "$A" != "$B" ]; then
    echo "VIOLATION (impure comptime): the values baked into the executable depend on the order of the definitions"
    exit 1
fi
exit 0
