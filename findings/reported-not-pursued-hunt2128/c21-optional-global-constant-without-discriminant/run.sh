#!/bin/bash
# usage: run.sh <capy binary> [<mod dir containing core/>]
# exits 1 when compilations of main.capy that differ only in the fill pattern of malloc'ed memory
# (MALLOC_PERTURB_) give different object files (violation of C21), 0 otherwise
CAPY=$(readlink -f "$1"); MOD=$2
[ -x "$CAPY" ] || { echo "usage: run.sh <capy binary> [<mod dir>]"; exit 2; }
HERE=$(cd "$(dirname "$0")" && pwd)
WORK=$(mktemp -d); trap 'rm -rf "$WORK"' EXIT
if [ -z "$MOD" ]; then MOD=$WORK/mods; mkdir -p "$MOD"; cp -r "$(dirname "$CAPY")/../../core" "$MOD/core"; else MOD=$(readlink -f "$MOD"); fi
mkdir "$WORK/proj"; cp "$HERE"/*.capy "$WORK/proj"; cd "$WORK/proj" || exit 2

one() { # label, command prefix...
    label=$1; shift
    rm -rf out
    "$@" timeout 20 "$CAPY" build main.capy --mod-dir "$MOD" --no-exec > "$WORK/out.txt" 2>&1
    if [ -f out/main.o ]; then
        sum=$(md5sum < out/main.o | cut -c1-12)
        dump=$(objdump -s -j .rodata out/main.o 2>/dev/null | sed -n '5,6p' | tr '\n' ' ')
    else
        sum="no-object:$(md5sum < "$WORK/out.txt" | cut -c1-8)"; dump=
    fi
    echo "$sum" >> "$WORK/digests"; echo "$label: object $sum   .rodata: $dump"
}

: > "$WORK/digests"
one "plain              " env
one "plain again        " env
for p in 1 85 170 254; do one "MALLOC_PERTURB_=$p" env MALLOC_PERTURB_=$p; done
n=$(sort -u "$WORK/digests" | wc -l)
echo "distinct object files: $n (expected 1; the 9th byte of the copy of the constant is its discriminant, it should be 01)"
[ "$n" -gt 1 ] && { echo "VIOLATION: same source, same options, different object files"; exit 1; }
exit 0
