#!/bin/bash
# usage: run.sh <capy binary> [<mod dir containing core/>]
# exits 1 when the same source gives different compiler outcomes (violation of C21), 0 otherwise
CAPY=$(readlink -f "$1"); MOD=$2
[ -x "$CAPY" ] || { echo "usage: run.sh <capy binary> [<mod dir>]"; exit 2; }
HERE=$(cd "$(dirname "$0")" && pwd)
WORK=$(mktemp -d); trap 'rm -rf "$WORK"' EXIT
if [ -z "$MOD" ]; then MOD=$WORK/mods; mkdir -p "$MOD"; cp -r "$(dirname "$CAPY")/../../core" "$MOD/core"; else MOD=$(readlink -f "$MOD"); fi
mkdir "$WORK/proj"; cp "$HERE"/*.capy "$WORK/proj"; cd "$WORK/proj" || exit 2

one() { # runs one build with the given command prefix, prints a digest of (normalised output, object file)
    rm -rf out
    "$@" timeout 20 "$CAPY" build main.capy --mod-dir "$MOD" --no-exec > "$WORK/out.txt" 2>&1
    echo "exit status $?" >> "$WORK/out.txt"
    sed -E 's/[0-9]+\.[0-9]+s/Xs/g' "$WORK/out.txt" | grep -v '^split_aggregate' > "$WORK/norm.txt"
    [ -f out/main.o ] && md5sum < out/main.o >> "$WORK/norm.txt"
    md5sum < "$WORK/norm.txt" | cut -c1-12
    cp "$WORK/norm.txt" "$WORK/last_$(md5sum < "$WORK/norm.txt" | cut -c1-12).txt"
}

: > "$WORK/digests"
if [ -z "$FORCE_ASLR" ] && setarch -R true 2>/dev/null; then
    # deterministic: no ASLR, a clean environment, only the size of one environment variable changes
    for pad in $(seq 0 16 255); do
        P=$(head -c $pad /dev/zero | tr '\0' x)
        d=$(one env -i PATH="$PATH" RUST_BACKTRACE=0 PADDING="$P" setarch -R)
        echo "$d" >> "$WORK/digests"; echo "setarch -R, PADDING of $pad bytes: $d"
    done
else
    # fall back to plain repeated runs under ASLR (each of the bad outcomes has a chance of 1/16)
    for i in $(seq 1 80); do
        d=$(one env RUST_BACKTRACE=0); echo "$d" >> "$WORK/digests"
        [ "$(sort -u "$WORK/digests" | wc -l)" -gt 1 ] && break
    done
fi
n=$(sort -u "$WORK/digests" | wc -l)
echo "distinct outcomes: $n"
for f in "$WORK"/last_*.txt; do echo "--- outcome $(basename "$f" .txt | cut -c6-) ($(grep -c "$(basename "$f" .txt | cut -c6-)" "$WORK/digests") times)"; head -8 "$f" | cut -c1-160; done
[ "$n" -gt 1 ] && { echo "VIOLATION: same source, same options, different outcome"; exit 1; }
exit 0
