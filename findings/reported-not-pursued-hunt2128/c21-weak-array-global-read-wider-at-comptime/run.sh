#!/bin/bash
# usage: run.sh <capy binary> [<mod dir containing core/>]
# exits 1 when repeated compilations of main.capy give different object files (violation of C21), 0 otherwise
CAPY=$(readlink -f "$1"); MOD=$2
[ -x "$CAPY" ] || { echo "usage: run.sh <capy binary> [<mod dir>]"; exit 2; }
HERE=$(cd "$(dirname "$0")" && pwd)
WORK=$(mktemp -d); trap 'rm -rf "$WORK"' EXIT
if [ -z "$MOD" ]; then MOD=$WORK/mods; mkdir -p "$MOD"; cp -r "$(dirname "$CAPY")/../../core" "$MOD/core"; else MOD=$(readlink -f "$MOD"); fi
mkdir "$WORK/proj"; cp "$HERE"/*.capy "$WORK/proj"; cd "$WORK/proj" || exit 2

one() { # label, command prefix...
    label=$1; shift
    rm -rf out
    "$@" timeout 20 "$CAPY" build main.capy --mod-dir "$MOD" --no-exec > "$WORK/out.txt" 2>&1
    if [ -f out/main.o ]; then
        sum=$(md5sum < out/main.o | cut -c1-12)
        # the bytes of the comptime result `table` (first 64 bytes of .rodata)
        objdump -s -j .rodata out/main.o 2>/dev/null | sed -n '5,8p' > "$WORK/dump_$sum.txt"
    else
        sum="no-object:$(md5sum < "$WORK/out.txt" | cut -c1-8)"
    fi
    echo "$sum" >> "$WORK/digests"; echo "$label: object $sum"
}

: > "$WORK/digests"
for i in 1 2 3 4 5 6; do one "plain run $i" env; done
one "MALLOC_PERTURB_=85" env MALLOC_PERTURB_=85
one "MALLOC_PERTURB_=170" env MALLOC_PERTURB_=170
n=$(sort -u "$WORK/digests" | wc -l)
echo "distinct object files: $n (expected 1)"
for f in $(ls "$WORK"/dump_*.txt 2>/dev/null | head -3); do echo "--- .rodata of $(basename "$f" .txt | cut -c6-) (the constant should be 2,3,5,7,11,13,17,19 as 8 x i64)"; cat "$f"; done
[ "$n" -gt 1 ] && { echo "VIOLATION: same source, same options, different object files"; exit 1; }
exit 0
