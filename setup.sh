#!/bin/sh
# Builds the framework from files on disk only (offline): the libc shim and launcher, the real
# compiler with hooks compiled in, and toposim. Every check re-does these steps incrementally.
set -e
cd "$(dirname "$0")"
export CARGO_NET_OFFLINE=true
python3 - <<'PY'
import sys
sys.path.insert(0, ".")
from sim import common
common.build_shim()
print("capy build: %.0fs" % common.build_capy())
common.build_toposim()
print("setup ok")
PY
