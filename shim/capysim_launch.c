/*
 * capysim_launch — starts one process of the simulated world.
 *
 *   capysim_launch [--layout compat] [--ldso <path to ld-linux>] [--plan <file> --shim <so>]
 *                  [--stack-kb <n>] -- <program> [args...]
 *
 * - turns address-space randomisation off for the process tree (personality ADDR_NO_RANDOMIZE),
 *   optionally with the legacy mmap layout (ADDR_COMPAT_LAYOUT), so that the address-space
 *   layout is a function of the world and not of the kernel's random number generator;
 * - with --ldso the program is started through the dynamic loader, which moves its image into
 *   the mmap area (a second, deterministic layout class);
 * - adds LD_PRELOAD and CAPYSIM_ARM to the environment *of the exec'd program only*; the
 *   shim's constructor removes both again, so grandchildren (gcc, ld, the built program) run
 *   without it.
 *
 * Exit status 96 means the launcher itself failed (harness error).
 */
#define _GNU_SOURCE
#include <stdio.h>
#include <stdlib.h>
#include <string.h>
#include <sys/personality.h>
#include <sys/resource.h>
#include <unistd.h>

int main(int argc, char **argv) {
    const char *plan = NULL, *shim = NULL, *ldso = NULL, *layout = "default";
    long stack_kb = 0;
    int i = 1;
    for (; i < argc; i++) {
        if (!strcmp(argv[i], "--")) {
            i++;
            break;
        } else if (!strcmp(argv[i], "--plan") && i + 1 < argc) plan = argv[++i];
        else if (!strcmp(argv[i], "--shim") && i + 1 < argc) shim = argv[++i];
        else if (!strcmp(argv[i], "--ldso") && i + 1 < argc) ldso = argv[++i];
        else if (!strcmp(argv[i], "--layout") && i + 1 < argc) layout = argv[++i];
        else if (!strcmp(argv[i], "--stack-kb") && i + 1 < argc) stack_kb = atol(argv[++i]);
        else {
            fprintf(stderr, "capysim_launch: bad argument %s\n", argv[i]);
            return 96;
        }
    }
    if (i >= argc) {
        fprintf(stderr, "capysim_launch: no program\n");
        return 96;
    }
    unsigned long persona = ADDR_NO_RANDOMIZE;
    if (!strcmp(layout, "compat")) persona |= ADDR_COMPAT_LAYOUT;
    if (personality(persona) == -1) {
        perror("capysim_launch: personality");
        return 96;
    }
    if (stack_kb > 0) {
        struct rlimit rl = {(rlim_t)stack_kb * 1024, (rlim_t)stack_kb * 1024};
        setrlimit(RLIMIT_STACK, &rl);
    }
    if (plan && shim) {
        setenv("CAPYSIM_ARM", plan, 1);
        setenv("LD_PRELOAD", shim, 1);
    }
    if (ldso) {
        /* ld.so <program> args... */
        char **nargv = calloc((size_t)(argc - i + 2), sizeof(char *));
        int n = 0;
        nargv[n++] = (char *)ldso;
        for (int j = i; j < argc; j++) nargv[n++] = argv[j];
        nargv[n] = NULL;
        execv(ldso, nargv);
    } else {
        execv(argv[i], argv + i);
    }
    perror("capysim_launch: exec");
    return 96;
}
