/*
 * capysim_shim.c — the libc seam of engine E1 ("capysim").
 *
 * Loaded with LD_PRELOAD into the real `capy` compiler process. It is inert unless the
 * environment variable CAPYSIM_ARM names a plan file; the constructor reads the plan and then
 * removes CAPYSIM_ARM and LD_PRELOAD from the environment, so everything the compiler spawns
 * (gcc, ld, the built program) runs without it.
 *
 * What the simulator owns through this seam (all decided by the plan, which the driver derives
 * from one seed; the shim itself draws no randomness and reads no real clock):
 *
 *   clock_gettime / gettimeofday / time      simulated clock (start, step per call, one jump)
 *   getrandom / getentropy                   bytes of a seeded stream (hash seeds of the process)
 *   getpid                                   simulated pid
 *   open / open64 / openat                   log; EINTR once; hard errors by ordinal or path pattern
 *   read                                     (source files) short reads; EINTR once; hard errors
 *   write / writev                           (object file, stdout) short writes; hard errors
 *   stat family / statx / access             log; hard errors by path pattern
 *   mkdir                                    log; hard error
 *   malloc                                   counted; "crash at the n-th allocation"
 *   crash points                             SIGKILL at the k-th event of a class
 *   address-space shifts                     brk / mmap holes made before main() runs
 *
 * Every intercepted call is appended to the event log named in the plan:
 *     <seq>\t<call>\t<path or class>\t<result>\t<injected action or ->
 *
 * Plan file: one directive per line, `#` starts a comment
 *     log <path>
 *     hashseed <u64>
 *     clock <start_ns> <step_ns>
 *     clockjump <at_call> <delta_ns>           (monotonic clock only ever jumps forward)
 *     realtime_offset <ns>  realtime_backstep <at_call> <ns>
 *     pid <n>
 *     hole_brk <bytes>      hole_mmap <bytes>
 *     shortread <max_bytes>                    reads of *.capy return at most this many bytes
 *     eintr_read <ordinal>  eintr_open <ordinal>   (1-based, counted over *.capy sources)
 *     shortwrite_obj <max_bytes>  shortwrite_stdout <max_bytes>
 *     eintr_write_obj <k>   eintr_write_stdout <k>     the k-th write fails once with EINTR
 *     fail_open <ordinal|0> <substring|*> <errno>     ordinal over *.capy opens; 0 = any
 *     fail_read <ordinal|0> <substring|*> <errno>
 *     fail_stat <ordinal|0> <substring|*> <errno>     ordinal over stat calls on *.capy paths
 *     fail_write_obj <ordinal> <errno>
 *     fail_open_obj <errno>
 *     fail_mkdir <errno>
 *     crash <class> <ordinal>     class: obj_open obj_write src_open src_read malloc stdout_write
 */
#define _GNU_SOURCE
#include <dlfcn.h>
#include <errno.h>
#include <fcntl.h>
#include <signal.h>
#include <stdarg.h>
#include <stdint.h>
#include <stdio.h>
#include <stdlib.h>
#include <string.h>
#include <sys/auxv.h>
#include <sys/mman.h>
#include <sys/stat.h>
#include <sys/syscall.h>
#include <sys/time.h>
#include <sys/types.h>
#include <sys/uio.h>
#include <time.h>
#include <unistd.h>

#define MAX_RULES 16
#define MAX_FD 4096

enum fdclass { FD_NONE = 0, FD_SRC = 1, FD_OBJ = 2 };

struct rule {
    long ordinal;      /* 0 = any */
    char pattern[256]; /* "*" = any */
    int err;
};

static int armed = 0;
static int logfd = -1;
static unsigned long seq = 0;

static uint64_t hashseed = 0;
static int have_hashseed = 0;
static uint64_t rnd_state = 0;

static int have_clock = 0;
static int64_t clock_start = 0, clock_step = 0;
static long clock_calls = 0;
static long clockjump_at = 0;
static int64_t clockjump_delta = 0;
static int64_t realtime_offset = 0;
static long realtime_backstep_at = 0;
static int64_t realtime_backstep = 0;
static int64_t sim_ns_total = 0;

static long fake_pid = 0;

static long shortread = 0, eintr_read = 0, eintr_open = 0;
static long shortwrite_obj = 0, shortwrite_stdout = 0;
static long eintr_write_obj = 0, eintr_write_stdout = 0;   /* the k-th write fails once with EINTR */
static struct rule fail_open_rules[MAX_RULES], fail_read_rules[MAX_RULES], fail_stat_rules[MAX_RULES];
static int n_fail_open = 0, n_fail_read = 0, n_fail_stat = 0;
static long fail_write_obj_at = 0;
static int fail_write_obj_errno = 0;
static int fail_open_obj_errno = 0;
static int fail_mkdir_errno = 0;

static char crash_class[32] = "";
static long crash_at = 0;

static long n_src_open = 0, n_src_read = 0, n_src_stat = 0, n_obj_open = 0, n_obj_write = 0,
            n_stdout_write = 0;
static volatile long n_malloc = 0;

static unsigned char fdclass_of[MAX_FD];
static char fdpath[MAX_FD][256];

/* ------------------------------------------------------------------------------------ */

static void raw_write(int fd, const char *buf, size_t n) {
    while (n > 0) {
        long r = syscall(SYS_write, fd, buf, n);
        if (r <= 0) {
            if (r < 0 && errno == EINTR) continue;
            return;
        }
        buf += r;
        n -= (size_t)r;
    }
}

static void logf_(const char *call, const char *arg, long result, const char *injected) {
    if (logfd < 0) return;
    char line[1024];
    int saved = errno;
    int n = snprintf(line, sizeof line, "%lu\t%s\t%s\t%ld\t%s\n", ++seq, call, arg ? arg : "-", result,
                     injected ? injected : "-");
    if (n > (int)sizeof line) n = sizeof line;
    raw_write(logfd, line, (size_t)n);
    errno = saved;
}

static void die_now(const char *why, const char *arg) {
    logf_("crash", arg, 0, why);
    syscall(SYS_kill, syscall(SYS_getpid), SIGKILL);
    for (;;) {
    }
}

static void maybe_crash(const char *cls, long count, const char *arg) {
    if (crash_at > 0 && count == crash_at && strcmp(cls, crash_class) == 0) die_now(cls, arg);
}

static int ends_with(const char *s, const char *suffix) {
    size_t a = strlen(s), b = strlen(suffix);
    return a >= b && memcmp(s + a - b, suffix, b) == 0;
}

static int is_src_path(const char *p) { return p && ends_with(p, ".capy"); }

/* the object file, or a file that is going to become it (`out/main.o.tmp`, renamed afterwards):
 * how the compiler gets the bytes into `out/<name>.o` is its own business, the faults have to
 * reach the file that receives them */
static int is_obj_path(const char *p) {
    if (!p) return 0;
    if (!(strncmp(p, "out/", 4) == 0 || strstr(p, "/out/") != NULL)) return 0;
    const char *base = strrchr(p, '/');
    base = base ? base + 1 : p;
    return strstr(base, ".o") != NULL;
}

static int rule_hits(struct rule *rules, int n, long ordinal, const char *path) {
    for (int i = 0; i < n; i++) {
        if (rules[i].ordinal != 0 && rules[i].ordinal != ordinal) continue;
        if (strcmp(rules[i].pattern, "*") != 0 && (!path || !strstr(path, rules[i].pattern))) continue;
        return rules[i].err;
    }
    return 0;
}

static const char *errname(int e) {
    switch (e) {
    case EIO: return "EIO";
    case EACCES: return "EACCES";
    case ENOENT: return "ENOENT";
    case EMFILE: return "EMFILE";
    case ENOSPC: return "ENOSPC";
    case EINTR: return "EINTR";
    case ENOMEM: return "ENOMEM";
    default: return "ERR";
    }
}

/* ------------------------------------------------------------------------------------ */
/* real functions */

static int (*real_open64)(const char *, int, ...);
static int (*real_open)(const char *, int, ...);
static int (*real_openat)(int, const char *, int, ...);
static ssize_t (*real_read)(int, void *, size_t);
static ssize_t (*real_write)(int, const void *, size_t);
static ssize_t (*real_writev)(int, const struct iovec *, int);
static int (*real_close)(int);
static int (*real_statx)(int, const char *, int, unsigned, struct statx *);
static int (*real_stat64)(const char *, struct stat64 *);
static int (*real_stat)(const char *, struct stat *);
static int (*real_access)(const char *, int);
static int (*real_mkdir)(const char *, mode_t);

static void resolve(void) {
    real_open64 = dlsym(RTLD_NEXT, "open64");
    real_open = dlsym(RTLD_NEXT, "open");
    real_openat = dlsym(RTLD_NEXT, "openat");
    real_read = dlsym(RTLD_NEXT, "read");
    real_write = dlsym(RTLD_NEXT, "write");
    real_writev = dlsym(RTLD_NEXT, "writev");
    real_close = dlsym(RTLD_NEXT, "close");
    real_statx = dlsym(RTLD_NEXT, "statx");
    real_stat64 = dlsym(RTLD_NEXT, "stat64");
    real_stat = dlsym(RTLD_NEXT, "stat");
    real_access = dlsym(RTLD_NEXT, "access");
    real_mkdir = dlsym(RTLD_NEXT, "mkdir");
}

/* ------------------------------------------------------------------------------------ */
/* plan */

static void add_rule(struct rule *rules, int *n, const char *rest) {
    if (*n >= MAX_RULES) return;
    struct rule *r = &rules[*n];
    if (sscanf(rest, "%ld %255s %d", &r->ordinal, r->pattern, &r->err) == 3) (*n)++;
}

static void read_plan(const char *path) {
    FILE *f = fopen(path, "r");
    if (!f) {
        const char msg[] = "capysim_shim: cannot read plan file\n";
        raw_write(2, msg, sizeof msg - 1);
        _exit(97);
    }
    char line[1024];
    long hole_brk = 0, hole_mmap = 0;
    char logpath[512] = "";
    while (fgets(line, sizeof line, f)) {
        char key[64];
        int off = 0;
        if (line[0] == '#' || sscanf(line, "%63s %n", key, &off) < 1) continue;
        const char *rest = line + off;
        if (!strcmp(key, "log")) sscanf(rest, "%511s", logpath);
        else if (!strcmp(key, "hashseed")) { hashseed = strtoull(rest, NULL, 0); have_hashseed = 1; }
        else if (!strcmp(key, "clock")) { have_clock = sscanf(rest, "%ld %ld", &clock_start, &clock_step) == 2; }
        else if (!strcmp(key, "clockjump")) sscanf(rest, "%ld %ld", &clockjump_at, &clockjump_delta);
        else if (!strcmp(key, "realtime_offset")) sscanf(rest, "%ld", &realtime_offset);
        else if (!strcmp(key, "realtime_backstep")) sscanf(rest, "%ld %ld", &realtime_backstep_at, &realtime_backstep);
        else if (!strcmp(key, "pid")) sscanf(rest, "%ld", &fake_pid);
        else if (!strcmp(key, "hole_brk")) sscanf(rest, "%ld", &hole_brk);
        else if (!strcmp(key, "hole_mmap")) sscanf(rest, "%ld", &hole_mmap);
        else if (!strcmp(key, "shortread")) sscanf(rest, "%ld", &shortread);
        else if (!strcmp(key, "eintr_read")) sscanf(rest, "%ld", &eintr_read);
        else if (!strcmp(key, "eintr_open")) sscanf(rest, "%ld", &eintr_open);
        else if (!strcmp(key, "shortwrite_obj")) sscanf(rest, "%ld", &shortwrite_obj);
        else if (!strcmp(key, "shortwrite_stdout")) sscanf(rest, "%ld", &shortwrite_stdout);
        else if (!strcmp(key, "eintr_write_obj")) sscanf(rest, "%ld", &eintr_write_obj);
        else if (!strcmp(key, "eintr_write_stdout")) sscanf(rest, "%ld", &eintr_write_stdout);
        else if (!strcmp(key, "fail_open")) add_rule(fail_open_rules, &n_fail_open, rest);
        else if (!strcmp(key, "fail_read")) add_rule(fail_read_rules, &n_fail_read, rest);
        else if (!strcmp(key, "fail_stat")) add_rule(fail_stat_rules, &n_fail_stat, rest);
        else if (!strcmp(key, "fail_write_obj")) sscanf(rest, "%ld %d", &fail_write_obj_at, &fail_write_obj_errno);
        else if (!strcmp(key, "fail_open_obj")) sscanf(rest, "%d", &fail_open_obj_errno);
        else if (!strcmp(key, "fail_mkdir")) sscanf(rest, "%d", &fail_mkdir_errno);
        else if (!strcmp(key, "crash")) sscanf(rest, "%31s %ld", crash_class, &crash_at);
    }
    fclose(f);

    if (logpath[0]) {
        int fd = (int)syscall(SYS_openat, AT_FDCWD, logpath, O_WRONLY | O_CREAT | O_APPEND | O_CLOEXEC, 0644);
        if (fd >= 0) {
            /* park the log far away from the descriptors the program will get */
            logfd = fcntl(fd, F_DUPFD_CLOEXEC, 1000);
            syscall(SYS_close, fd);
        }
    }

    /* address-space shifts, before the program allocates anything of its own */
    if (hole_brk > 0) {
        if (sbrk(hole_brk) == (void *)-1) logf_("hole_brk", "-", -1, "-");
    }
    if (hole_mmap > 0) {
        void *p = mmap(NULL, (size_t)hole_mmap, PROT_NONE, MAP_PRIVATE | MAP_ANONYMOUS | MAP_NORESERVE, -1, 0);
        if (p == MAP_FAILED) logf_("hole_mmap", "-", -1, "-");
    }
    rnd_state = hashseed;
}

extern void *__libc_malloc(size_t);

__attribute__((constructor)) static void capysim_init(void) {
    /* heap_hole: move the *whole* brk heap (its start, not only its later growth), so it has to
       happen before the first allocation of the process - hence before fopen()/dlsym() below.
       getenv() and strtol() do not allocate. The variable is always present with a fixed width
       (the stack does not move with its value) and is removed again further down. */
    const char *hh = getenv("CAPYSIM_HEAP_HOLE");
    long heap_hole = hh ? strtol(hh, NULL, 10) : 0;
    int heap_hole_failed = 0;
    if (heap_hole > 0 && getenv("CAPYSIM_ARM") && sbrk(heap_hole) == (void *)-1) heap_hole_failed = 1;
    resolve();
    const char *plan = getenv("CAPYSIM_ARM");
    if (!plan || !*plan) return;
    char planpath[512];
    snprintf(planpath, sizeof planpath, "%s", plan);
    /* children of the compiler (gcc, ld, the built program) must run without the shim */
    unsetenv("CAPYSIM_ARM");
    unsetenv("LD_PRELOAD");
    read_plan(planpath);
    if (heap_hole_failed) logf_("heap_hole", "-", -1, "-");

    /* address probes: where did heap, stack, image and mappings end up in this world? */
    int on_stack = 0;
    void *heap = __libc_malloc(24);
    void *map = mmap(NULL, 4096, PROT_READ, MAP_PRIVATE | MAP_ANONYMOUS, -1, 0);
    char probe[256];
    snprintf(probe, sizeof probe, "heap=%p stack=%p image=%#lx mmap=%p brk=%p", heap, (void *)&on_stack,
             getauxval(AT_ENTRY), map, sbrk(0));
    if (map != MAP_FAILED) munmap(map, 4096);
    armed = 1;
    logf_("probe", probe, 0, "-");
}

__attribute__((destructor)) static void capysim_fini(void) {
    if (!armed) return;
    char buf[128];
    snprintf(buf, sizeof buf, "clock_calls=%ld sim_ns=%ld mallocs=%ld", clock_calls, (long)sim_ns_total, n_malloc);
    logf_("exit", buf, 0, "-");
}

/* ------------------------------------------------------------------------------------ */
/* nondeterminism sources */

static uint64_t splitmix(void) {
    uint64_t z = (rnd_state += 0x9E3779B97F4A7C15ULL);
    z = (z ^ (z >> 30)) * 0xBF58476D1CE4E5B9ULL;
    z = (z ^ (z >> 27)) * 0x94D049BB133111EBULL;
    return z ^ (z >> 31);
}

ssize_t getrandom(void *buf, size_t len, unsigned flags) {
    if (!armed || !have_hashseed) return syscall(SYS_getrandom, buf, len, flags);
    unsigned char *p = buf;
    for (size_t i = 0; i < len; i++) {
        static uint64_t word;
        if (i % 8 == 0) word = splitmix();
        p[i] = (unsigned char)(word >> (8 * (i % 8)));
    }
    logf_("getrandom", "-", (long)len, "seeded");
    return (ssize_t)len;
}

int getentropy(void *buf, size_t len) {
    if (len > 256) {
        errno = EIO;
        return -1;
    }
    return getrandom(buf, len, 0) == (ssize_t)len ? 0 : -1;
}

static int64_t sim_now(clockid_t clk) {
    clock_calls++;
    int64_t t = clock_start + clock_step * clock_calls;
    if (clockjump_at > 0 && clock_calls >= clockjump_at) t += clockjump_delta;
    sim_ns_total = t - clock_start;
    if (clk == CLOCK_REALTIME || clk == CLOCK_REALTIME_COARSE) {
        t += realtime_offset;
        if (realtime_backstep_at > 0 && clock_calls >= realtime_backstep_at) t -= realtime_backstep;
    }
    return t;
}

int clock_gettime(clockid_t clk, struct timespec *ts) {
    if (!armed || !have_clock) return (int)syscall(SYS_clock_gettime, clk, ts);
    int64_t t = sim_now(clk);
    ts->tv_sec = t / 1000000000LL;
    ts->tv_nsec = t % 1000000000LL;
    char a[32];
    snprintf(a, sizeof a, "clk=%d", (int)clk);
    logf_("clock_gettime", a, (long)(t / 1000000), clockjump_at > 0 && clock_calls == clockjump_at ? "jump" : "-");
    return 0;
}

int gettimeofday(struct timeval *tv, void *tz) {
    if (!armed || !have_clock) return (int)syscall(SYS_gettimeofday, tv, tz);
    int64_t t = sim_now(CLOCK_REALTIME);
    if (tv) {
        tv->tv_sec = t / 1000000000LL;
        tv->tv_usec = (t % 1000000000LL) / 1000;
    }
    logf_("gettimeofday", "-", (long)(t / 1000000), "-");
    return 0;
}

time_t time(time_t *out) {
    if (!armed || !have_clock) {
        struct timespec ts;
        syscall(SYS_clock_gettime, CLOCK_REALTIME, &ts);
        if (out) *out = ts.tv_sec;
        return ts.tv_sec;
    }
    int64_t t = sim_now(CLOCK_REALTIME);
    time_t s = (time_t)(t / 1000000000LL);
    if (out) *out = s;
    logf_("time", "-", (long)s, "-");
    return s;
}

pid_t getpid(void) {
    if (!armed || fake_pid <= 0) return (pid_t)syscall(SYS_getpid);
    return (pid_t)fake_pid;
}

void *malloc(size_t n) {
    if (armed) {
        long c = __sync_add_and_fetch(&n_malloc, 1);
        if (crash_at > 0 && c == crash_at && strcmp(crash_class, "malloc") == 0) die_now("malloc", "-");
    }
    return __libc_malloc(n);
}

/* ------------------------------------------------------------------------------------ */
/* files */

static int open_common(const char *call, int dirfd, const char *path, int flags, mode_t mode) {
    int fd;
    if (!armed) {
        if (!real_openat) resolve();
        return real_openat(dirfd, path, flags, mode);
    }
    int src = is_src_path(path);
    int obj = is_obj_path(path) && (flags & (O_WRONLY | O_RDWR));
    if (src) {
        n_src_open++;
        maybe_crash("src_open", n_src_open, path);
        if (eintr_open > 0 && n_src_open == eintr_open) {
            eintr_open = -1; /* fires once; the retry is a new call but must not count again */
            n_src_open--;
            logf_(call, path, -1, "EINTR");
            errno = EINTR;
            return -1;
        }
        int e = rule_hits(fail_open_rules, n_fail_open, n_src_open, path);
        if (e) {
            logf_(call, path, -1, errname(e));
            errno = e;
            return -1;
        }
    }
    if (obj) {
        n_obj_open++;
        if (fail_open_obj_errno) {
            logf_(call, path, -1, errname(fail_open_obj_errno));
            errno = fail_open_obj_errno;
            return -1;
        }
    }
    fd = real_openat(dirfd, path, flags, mode);
    int saved = errno;
    if (fd >= 0 && fd < MAX_FD) {
        fdclass_of[fd] = src ? FD_SRC : obj ? FD_OBJ : FD_NONE;
        if (src || obj) snprintf(fdpath[fd], sizeof fdpath[fd], "%s", path);
    }
    if (src || obj || ends_with(path, ".capy") || strstr(path, "/out")) {
        char a[400];
        snprintf(a, sizeof a, "%s flags=%#x", path, flags);
        logf_(call, a, fd, "-");
    }
    if (obj && fd >= 0) maybe_crash("obj_open", n_obj_open, path);
    errno = saved;
    return fd;
}

int open64(const char *path, int flags, ...) {
    mode_t mode = 0;
    if (flags & (O_CREAT | O_TMPFILE)) {
        va_list ap;
        va_start(ap, flags);
        mode = va_arg(ap, mode_t);
        va_end(ap);
    }
    return open_common("open", AT_FDCWD, path, flags, mode);
}

int open(const char *path, int flags, ...) {
    mode_t mode = 0;
    if (flags & (O_CREAT | O_TMPFILE)) {
        va_list ap;
        va_start(ap, flags);
        mode = va_arg(ap, mode_t);
        va_end(ap);
    }
    return open_common("open", AT_FDCWD, path, flags, mode);
}

int openat(int dirfd, const char *path, int flags, ...) {
    mode_t mode = 0;
    if (flags & (O_CREAT | O_TMPFILE)) {
        va_list ap;
        va_start(ap, flags);
        mode = va_arg(ap, mode_t);
        va_end(ap);
    }
    return open_common("openat", dirfd, path, flags, mode);
}

int openat64(int dirfd, const char *path, int flags, ...) {
    mode_t mode = 0;
    if (flags & (O_CREAT | O_TMPFILE)) {
        va_list ap;
        va_start(ap, flags);
        mode = va_arg(ap, mode_t);
        va_end(ap);
    }
    return open_common("openat", dirfd, path, flags, mode);
}

int close(int fd) {
    if (armed && fd >= 0 && fd < MAX_FD && fdclass_of[fd] != FD_NONE) {
        logf_("close", fdpath[fd], 0, "-");
        fdclass_of[fd] = FD_NONE;
    }
    if (!real_close) resolve();
    return real_close(fd);
}

ssize_t read(int fd, void *buf, size_t n) {
    if (!real_read) resolve();
    if (!armed || fd < 0 || fd >= MAX_FD || fdclass_of[fd] != FD_SRC) return real_read(fd, buf, n);
    n_src_read++;
    maybe_crash("src_read", n_src_read, fdpath[fd]);
    if (eintr_read > 0 && n_src_read == eintr_read) {
        eintr_read = -1;
        n_src_read--;
        logf_("read", fdpath[fd], -1, "EINTR");
        errno = EINTR;
        return -1;
    }
    int e = rule_hits(fail_read_rules, n_fail_read, n_src_read, fdpath[fd]);
    if (e) {
        logf_("read", fdpath[fd], -1, errname(e));
        errno = e;
        return -1;
    }
    size_t want = n;
    const char *inj = "-";
    if (shortread > 0 && want > (size_t)shortread) {
        want = (size_t)shortread;
        inj = "short";
    }
    ssize_t r = real_read(fd, buf, want);
    logf_("read", fdpath[fd], (long)r, inj);
    return r;
}

static ssize_t write_common(int fd, const void *buf, size_t n) {
    if (fd == 1) {
        n_stdout_write++;
        maybe_crash("stdout_write", n_stdout_write, "stdout");
        if (eintr_write_stdout > 0 && n_stdout_write == eintr_write_stdout) {
            /* interrupted before anything was written: legal, the caller has to retry */
            eintr_write_stdout = 0;
            n_stdout_write--;
            logf_("write", "stdout", -1, "EINTR");
            errno = EINTR;
            return -1;
        }
        size_t want = n;
        const char *inj = "-";
        if (shortwrite_stdout > 0 && want > (size_t)shortwrite_stdout) {
            want = (size_t)shortwrite_stdout;
            inj = "short";
        }
        ssize_t r = real_write(fd, buf, want);
        logf_("write", "stdout", (long)r, inj);
        return r;
    }
    if (fd >= 0 && fd < MAX_FD && fdclass_of[fd] == FD_OBJ) {
        n_obj_write++;
        maybe_crash("obj_write", n_obj_write, fdpath[fd]);
        if (eintr_write_obj > 0 && n_obj_write == eintr_write_obj) {
            eintr_write_obj = 0;
            n_obj_write--;
            logf_("write", fdpath[fd], -1, "EINTR");
            errno = EINTR;
            return -1;
        }
        if (fail_write_obj_at > 0 && n_obj_write >= fail_write_obj_at) {
            logf_("write", fdpath[fd], -1, errname(fail_write_obj_errno));
            errno = fail_write_obj_errno;
            return -1;
        }
        size_t want = n;
        const char *inj = "-";
        if (shortwrite_obj > 0 && want > (size_t)shortwrite_obj) {
            want = (size_t)shortwrite_obj;
            inj = "short";
        }
        ssize_t r = real_write(fd, buf, want);
        logf_("write", fdpath[fd], (long)r, inj);
        return r;
    }
    return real_write(fd, buf, n);
}

ssize_t write(int fd, const void *buf, size_t n) {
    if (!real_write) resolve();
    if (!armed) return real_write(fd, buf, n);
    return write_common(fd, buf, n);
}

ssize_t writev(int fd, const struct iovec *iov, int cnt) {
    if (!real_writev) resolve();
    if (!armed || cnt <= 0 || !(fd == 1 || (fd >= 0 && fd < MAX_FD && fdclass_of[fd] == FD_OBJ)))
        return real_writev(fd, iov, cnt);
    /* a vectored write may legally be short: serve the first non-empty buffer only */
    for (int i = 0; i < cnt; i++)
        if (iov[i].iov_len > 0) return write_common(fd, iov[i].iov_base, iov[i].iov_len);
    return 0;
}

static int stat_fault(const char *call, const char *path) {
    if (!is_src_path(path)) return 0;
    n_src_stat++;
    int e = rule_hits(fail_stat_rules, n_fail_stat, n_src_stat, path);
    if (e) {
        logf_(call, path, -1, errname(e));
        errno = e;
        return -1;
    }
    return 0;
}

int statx(int dirfd, const char *path, int flags, unsigned mask, struct statx *buf) {
    if (!real_statx) resolve();
    if (!armed || !path || !*path) return real_statx(dirfd, path, flags, mask, buf);
    if (stat_fault("statx", path)) return -1;
    int r = real_statx(dirfd, path, flags, mask, buf);
    int saved = errno;
    if (is_src_path(path) || strstr(path, "/src") || strstr(path, "out")) {
        char a[400];
        snprintf(a, sizeof a, "%s", path);
        logf_("statx", a, r == 0 ? (long)(buf->stx_mode & S_IFMT) : -(long)saved, "-");
    }
    errno = saved;
    return r;
}

int stat64(const char *path, struct stat64 *buf) {
    if (!real_stat64) resolve();
    if (!armed) return real_stat64(path, buf);
    if (stat_fault("stat", path)) return -1;
    int r = real_stat64(path, buf);
    int saved = errno;
    if (is_src_path(path)) logf_("stat", path, r == 0 ? (long)(buf->st_mode & S_IFMT) : -(long)saved, "-");
    errno = saved;
    return r;
}

int stat(const char *path, struct stat *buf) {
    if (!real_stat) resolve();
    if (!armed) return real_stat(path, buf);
    if (stat_fault("stat", path)) return -1;
    int r = real_stat(path, buf);
    int saved = errno;
    if (is_src_path(path)) logf_("stat", path, r == 0 ? (long)(buf->st_mode & S_IFMT) : -(long)saved, "-");
    errno = saved;
    return r;
}

int access(const char *path, int mode) {
    if (!real_access) resolve();
    int r = real_access(path, mode);
    if (armed && is_src_path(path)) {
        int saved = errno;
        logf_("access", path, r, "-");
        errno = saved;
    }
    return r;
}

int mkdir(const char *path, mode_t mode) {
    if (!real_mkdir) resolve();
    if (!armed) return real_mkdir(path, mode);
    if (fail_mkdir_errno && (strcmp(path, "out") == 0 || ends_with(path, "/out"))) {
        logf_("mkdir", path, -1, errname(fail_mkdir_errno));
        errno = fail_mkdir_errno;
        return -1;
    }
    int r = real_mkdir(path, mode);
    int saved = errno;
    logf_("mkdir", path, r == 0 ? 0 : -(long)saved, "-");
    errno = saved;
    return r;
}
