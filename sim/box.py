"""capysim box: run the real `capy` binary (and the programs it builds) inside a world in
which every source of nondeterminism is decided by the caller.

A *world* is a plain dict (JSON-serialisable, it goes into replay files verbatim):

  layout        "default" | "compat"       address-space layout class (personality flags)
  via_ldso      bool                        start the compiler through ld-linux (moves the image)
  env_pad       int                         length of a padding variable (moves the stack)
  hole_brk      int   hole_mmap int         holes made before main (move heap / later mmaps)
  heap_hole     int                         sbrk() hole made before the *first* allocation of the
                                            process: moves the whole brk heap, incl. the upper
                                            32 bits of every heap address (multiples of 4 GiB)
  perturb       int 0..255                  glibc.malloc.perturb  (fill of fresh / freed chunks)
  tcache_count  int | None                  glibc.malloc.tcache_count
  mmap_threshold int | None                 glibc.malloc.mmap_threshold
  hashseed      int                         seed of the getrandom() stream (hash seeds)
  clock_start   int ns  clock_step int ns   simulated clock
  clockjump     [at_call, delta_ns] | None
  realtime_backstep [at_call, ns] | None
  pid           int
  env_noise     {name: value}               irrelevant environment variables
  shortread / eintr_read / eintr_open / shortwrite_obj / shortwrite_stdout /
  eintr_write_obj / eintr_write_stdout                                      legal I/O behaviour
  faults        [[directive, args...], ...] hard faults (fail_open, fail_read, fail_stat,
                                            fail_write_obj, fail_open_obj, fail_mkdir)
  crash         [class, ordinal] | None     SIGKILL at the k-th event of a class

Nothing in here draws random numbers; the callers derive every value from VERIF_SEED.
"""

import os
import re
import shutil
import signal
import subprocess

VERIF = os.path.dirname(os.path.dirname(os.path.abspath(__file__)))
BUILD = os.path.join(VERIF, "build")
CAPY = os.path.join(os.environ.get("VERIF_TARGET", os.path.join(VERIF, "target")), "capy", "release", "capy")
REPO = os.environ.get("VERIF_REPO", "/repo")
SHIM = os.path.join(BUILD, "capysim_shim.so")
LAUNCH = os.path.join(BUILD, "capysim_launch")
LDSO = "/lib64/ld-linux-x86-64.so.2"
# one scratch root per check process (several checks may run at the same time); fixed width, so
# that the length of every path the compiler sees is the same in every run
SCRATCH_ROOT = os.environ.get("CAPYSIM_SCRATCH") or "/tmp/capysim-%07d" % (os.getpid() % 10**7)

REFERENCE_WORLD = {
    "layout": "default",
    "via_ldso": False,
    "env_pad": 0,
    "hole_brk": 0,
    "hole_mmap": 0,
    "heap_hole": 0,
    "perturb": 0,
    "tcache_count": None,
    "mmap_threshold": None,
    "hashseed": 0,
    "clock_start": 1_000_000_000_000,
    "clock_step": 1_000_000,
    "clockjump": None,
    "realtime_backstep": None,
    "pid": 4242,
    "env_noise": {},
    "shortread": 0,
    "eintr_read": 0,
    "eintr_open": 0,
    "shortwrite_obj": 0,
    "shortwrite_stdout": 0,
    "eintr_write_obj": 0,
    "eintr_write_stdout": 0,
    "faults": [],
    "crash": None,
}

ERRNO = {"EIO": 5, "EACCES": 13, "ENOENT": 2, "EMFILE": 24, "ENOSPC": 28, "ENOMEM": 12}

TIMEOUT_S = 60


def world(**kw):
    w = dict(REFERENCE_WORLD)
    w.update(kw)
    return w


class HarnessError(Exception):
    pass


_NO_ASLR = False


def ensure_no_aslr():
    """personality(ADDR_NO_RANDOMIZE) for this process; inherited by everything it starts, so
    the address-space layout of every simulated process is a function of its world only"""
    global _NO_ASLR
    if _NO_ASLR:
        return
    import ctypes
    libc = ctypes.CDLL(None, use_errno=True)
    ADDR_NO_RANDOMIZE = 0x0040000
    cur = libc.personality(0xFFFFFFFF)
    if cur == -1 or libc.personality(cur | ADDR_NO_RANDOMIZE) == -1:
        raise HarnessError("personality(ADDR_NO_RANDOMIZE) failed")
    # a compiler that spins (e.g. a broken scheduler loop) would otherwise write scheduler
    # traces or objects without bound until its timeout; no legitimate file here comes close
    import resource
    resource.setrlimit(resource.RLIMIT_FSIZE, (256 << 20, 256 << 20))
    _NO_ASLR = True


def plan_text(w, log_path):
    lines = ["log %s" % log_path]
    lines.append("hashseed %d" % (w["hashseed"] & 0xFFFFFFFFFFFFFFFF))
    lines.append("clock %d %d" % (w["clock_start"], w["clock_step"]))
    if w.get("clockjump"):
        lines.append("clockjump %d %d" % tuple(w["clockjump"]))
    if w.get("realtime_backstep"):
        lines.append("realtime_backstep %d %d" % tuple(w["realtime_backstep"]))
    lines.append("pid %d" % w["pid"])
    for key in ("hole_brk", "hole_mmap", "shortread", "eintr_read", "eintr_open",
                "shortwrite_obj", "shortwrite_stdout", "eintr_write_obj", "eintr_write_stdout"):
        if w.get(key):
            lines.append("%s %d" % (key, w[key]))
    for f in w.get("faults") or []:
        lines.append(" ".join(str(ERRNO.get(x, x)) if isinstance(x, str) and x in ERRNO else str(x)
                              for x in f))
    if w.get("crash"):
        lines.append("crash %s %d" % tuple(w["crash"]))
    return "\n".join(lines) + "\n"


def build_env(w, home, extra=None):
    env = {
        "PATH": "/usr/bin:/bin",
        "HOME": home,
        "TERM": "dumb",
        "LANG": "C",
    }
    tun = []
    if w.get("perturb"):
        tun.append("glibc.malloc.perturb=%d" % w["perturb"])
    if w.get("tcache_count") is not None:
        tun.append("glibc.malloc.tcache_count=%d" % w["tcache_count"])
    if w.get("mmap_threshold") is not None:
        tun.append("glibc.malloc.mmap_threshold=%d" % w["mmap_threshold"])
    if tun:
        env["GLIBC_TUNABLES"] = ":".join(tun)
    for k in sorted(w.get("env_noise") or {}):
        env["CAPYSIM_NOISE_" + k] = w["env_noise"][k]
    if w.get("env_pad"):
        env["CAPYSIM_PAD"] = "x" * w["env_pad"]
    env["CAPYSIM_HEAP_HOLE"] = "%020d" % (w.get("heap_hole") or 0)
    if extra:
        env.update(extra)
    return env


class Event:
    __slots__ = ("seq", "call", "arg", "result", "injected")

    def __init__(self, seq, call, arg, result, injected):
        self.seq, self.call, self.arg, self.result, self.injected = seq, call, arg, result, injected

    def as_list(self):
        return [self.seq, self.call, self.arg, self.result, self.injected]


def parse_log(text):
    events = []
    for line in text.splitlines():
        f = line.split("\t")
        if len(f) != 5:
            continue
        try:
            events.append(Event(int(f[0]), f[1], f[2], int(f[3]), f[4]))
        except ValueError:
            continue
    return events


class RunResult:
    def __init__(self):
        self.exit = None          # exit status, negative = killed by that signal
        self.timed_out = False
        self.stdout = b""
        self.stderr = b""
        self.events = []          # shim event log
        self.log_text = ""
        self.trace = None         # scheduler trace text (hook H1) or None
        self.probe = None

    def fired(self):
        """count of injected actions per kind, taken from the event log (what really happened)"""
        out = {}
        for e in self.events:
            if e.injected != "-":
                key = "%s:%s" % (e.call, e.injected)
                out[key] = out.get(key, 0) + 1
        return out


def _kill_group(p):
    try:
        os.killpg(p.pid, signal.SIGKILL)
    except OSError:
        pass


class Box:
    """one scratch area; a worker process owns exactly one Box"""

    def __init__(self, worker):
        self.root = os.path.join(SCRATCH_ROOT, "w%02d" % worker)
        self.proj = os.path.join(self.root, "p")        # working directory of the compiler
        self.mods = os.path.join(self.root, "m")        # module directory
        self.home = os.path.join(self.root, "h")
        self.aux = os.path.join(self.root, "x")         # plan, event log, scheduler trace
        self.reset()

    # --- file system ---------------------------------------------------------------------
    def reset(self):
        shutil.rmtree(self.root, ignore_errors=True)
        for d in (self.proj, self.mods, self.home, self.aux):
            os.makedirs(d)
        os.makedirs(os.path.join(self.mods, "core"))

    def clean_proj(self):
        shutil.rmtree(self.proj, ignore_errors=True)
        os.makedirs(self.proj)

    def destroy(self):
        shutil.rmtree(self.root, ignore_errors=True)

    def write_tree(self, files, base=None):
        """files: {relative path: text | None (directory)}"""
        base = base or self.proj
        for rel in sorted(files):
            path = os.path.normpath(os.path.join(base, rel))
            if files[rel] is None:
                os.makedirs(path, exist_ok=True)
                continue
            os.makedirs(os.path.dirname(path), exist_ok=True)
            data = files[rel]
            with open(path, "wb") as f:
                f.write(data if isinstance(data, bytes) else data.encode())

    def use_real_core(self):
        core = os.path.join(self.mods, "core")
        if os.path.islink(core):
            return
        shutil.rmtree(core, ignore_errors=True)
        shutil.copytree(os.path.join(REPO, "core"), core)

    # --- processes -----------------------------------------------------------------------
    def compile(self, args, w, cwd=None, trace=False, timeout=TIMEOUT_S):
        """run `capy <args>` in the world `w`"""
        plan = os.path.join(self.aux, "plan")
        log = os.path.join(self.aux, "log")
        tr = os.path.join(self.aux, "sched.trace")
        for p in (log, tr):
            try:
                os.unlink(p)
            except FileNotFoundError:
                pass
        with open(plan, "w") as f:
            f.write(plan_text(w, log))
        extra = {"CAPY_VERIF_SCHED_TRACE": tr} if trace else None
        env = build_env(w, self.home, extra)
        ensure_no_aslr()
        if w["layout"] == "default":
            # ASLR is already off for this whole process tree (ensure_no_aslr); arm the shim
            # through the environment of the compiler process only (its constructor removes
            # both variables again, so gcc/ld/the built program never see them)
            env["CAPYSIM_ARM"] = plan
            env["LD_PRELOAD"] = SHIM
            cmd = ([LDSO] if w.get("via_ldso") else []) + [CAPY] + list(args)
        else:
            cmd = [LAUNCH, "--layout", w["layout"], "--plan", plan, "--shim", SHIM]
            if w.get("via_ldso"):
                cmd += ["--ldso", LDSO]
            cmd += ["--", CAPY] + list(args)
        res = self._run(cmd, env, cwd or self.proj, timeout)
        try:
            with open(log, "r", errors="replace") as f:
                res.log_text = f.read()
        except FileNotFoundError:
            res.log_text = ""
        res.events = parse_log(res.log_text)
        for e in res.events:
            if e.call == "probe":
                res.probe = e.arg
                break
        if trace:
            try:
                with open(tr, "r", errors="replace") as f:
                    res.trace = f.read()
            except FileNotFoundError:
                res.trace = None
        if res.exit == 96 or res.exit == 97 or (res.probe is None and not res.timed_out):
            raise HarnessError("the simulated process did not start properly: exit=%r stderr=%r"
                               % (res.exit, res.stderr[:300]))
        return res

    def execute(self, exe, args=(), cwd=None, timeout=20):
        """run a program the compiler built: real code, no shim, no address randomisation"""
        ensure_no_aslr()
        env = build_env(REFERENCE_WORLD, self.home)
        cmd = [exe] + list(args)
        return self._run(cmd, env, cwd or self.proj, timeout)

    def _run(self, cmd, env, cwd, timeout):
        res = RunResult()
        p = subprocess.Popen(cmd, env=env, cwd=cwd, stdin=subprocess.DEVNULL,
                             stdout=subprocess.PIPE, stderr=subprocess.PIPE,
                             start_new_session=True)
        try:
            res.stdout, res.stderr = p.communicate(timeout=timeout)
        except subprocess.TimeoutExpired:
            res.timed_out = True
            _kill_group(p)
            res.stdout, res.stderr = p.communicate()
        _kill_group(p)
        res.exit = p.returncode
        return res

    def read_obj(self, name, cwd=None):
        try:
            with open(os.path.join(cwd or self.proj, "out", name + ".o"), "rb") as f:
                return f.read()
        except (FileNotFoundError, NotADirectoryError, IsADirectoryError):
            return None


_TIMING = re.compile(rb"(parsed in |took | in )\d+\.\d\ds")


def mask_timing(out):
    """the three timing fragments main.rs prints"""
    return _TIMING.sub(lambda m: m.group(1) + b"N.NNs", out)


def mask_scratch(out, box):
    """worker-specific scratch directory -> a fixed token"""
    return out.replace(box.root.encode(), b"/tmp/capysim/wNN")
