"""C20 — results do not depend on the order of definitions or files.

What is simulated: the type checker's work-list scheduler (InferenceCtx::finish) inside the
real compiler binary. The schedule is chosen through the only seam the property allows —
textual order of the globals, partition into up to 3 mutually importing files, order and
position of the import declarations — and observed through hook H1 (the sequence of scheduler
events actually executed), so that "distinct interleavings" is measured on the scheduler
itself. Everything else (address-space layout, hash seeds, clock, pid, environment) is pinned
to the reference world, so a difference between base and variant is attributable to order
alone.

Oracle (metamorphic): every variant of an accepted program must be accepted, and its
executable's (stdout, exit status) must equal the base's.
"""

import hashlib
import json
import os
import random
import re
import time

from . import box as boxmod
from . import common, corpus, gen

PROP = "C20"
LEVEL = "exploration"


# ------------------------------------------------------------------------------------------
# one build + run

# wall-clock cap of one compiler process (a typical one takes 15 ms). C26 lowers it while it
# only collects scheduler traces.
COMPILE_TIMEOUT = 60

ERR_RE = re.compile(r"^error: (.*)$", re.M)
NUM_RE = re.compile(r"\d+")


def schedule_signature(trace):
    """hash of the scheduler events actually executed, names made independent of the file a
    definition lives in (`main::f` -> `f`) and of arena indices"""
    if not trace:
        return None
    h = hashlib.sha256()
    for line in trace.splitlines():
        f = line.split("\t")
        kind = f[0]
        if kind in ("start", "round"):
            # what the API offered is repeated by `offered`; keep only ok/cycle
            h.update((kind + ":" + (f[2] if kind == "round" else "")).encode())
            continue
        names = []
        for field in f[1:]:
            for item in field.split("|"):
                if "~" in item:
                    n = item.split("~", 1)[1]
                    n = n.split("::", 1)[1] if "::" in n else n
                    if n.startswith("lambda#") and n[7:].isdigit():
                        n = "lambda#N"
                    names.append(n)
        h.update((kind + ":" + ",".join(names) + ";").encode())
    return h.hexdigest()[:16]


def trace_stats(trace):
    if not trace:
        return {"rounds": 0, "cyclic_rounds": 0, "restarts": 0}
    rounds = cyc = restarts = 0
    for line in trace.splitlines():
        if line.startswith("round\t"):
            rounds += 1
            if "\tcycle\t" in line:
                cyc += 1
        elif line.startswith("deps\t"):
            restarts += 1
    return {"rounds": rounds, "cyclic_rounds": cyc, "restarts": restarts}


def build_and_run(bx, files, entry="main.capy", want_trace=True, world=None, link=True):
    """-> outcome dict (JSON-serialisable)"""
    bx.clean_proj()
    bx.write_tree(files)
    w = world or boxmod.REFERENCE_WORLD
    args = ["build", entry, "--mod-dir", bx.mods]
    if not link:
        args.append("--no-exec")
    res = bx.compile(args, w, trace=want_trace, timeout=COMPILE_TIMEOUT)
    out = boxmod.mask_scratch(res.stdout, bx).decode(errors="replace")
    errors = ERR_RE.findall(out)
    o = {
        "compile_exit": res.exit,
        "timed_out": res.timed_out,
        "errors": errors,
        "accepted": False,
        "crashed": False,
        "run_stdout": None,
        "run_exit": None,
        "sched_sig": schedule_signature(res.trace),
        "sched": trace_stats(res.trace),
        "compile_stdout_tail": out[-1500:],
        "compile_stderr_tail": res.stderr.decode(errors="replace")[-800:],
    }
    o["_trace"] = res.trace
    name = os.path.splitext(os.path.basename(entry))[0]
    if res.timed_out:
        return o
    if res.exit != 0 and not errors:
        o["crashed"] = True          # panic (101), signal (<0), exit(1) without a diagnostic
        return o
    if res.exit != 0:
        return o
    exe = os.path.join(bx.proj, "out", name)
    if link and not os.path.exists(exe):
        o["crashed"] = True
        return o
    o["accepted"] = True
    if link:
        r = bx.execute(exe)
        o["run_stdout"] = r.stdout.decode(errors="replace")
        o["run_exit"] = r.exit
        o["run_timed_out"] = r.timed_out
    return o


def public(o):
    return {k: v for k, v in o.items() if not k.startswith("_")}


def compare(base, var):
    """-> None if the variant agrees with the base, else a divergence class"""
    if var["timed_out"]:
        return "variant-timeout"
    if var["crashed"]:
        return "variant-crashed-compiler"
    if not var["accepted"]:
        return "variant-rejected"
    if base.get("run_timed_out") or var.get("run_timed_out"):
        return None if base.get("run_timed_out") == var.get("run_timed_out") else "behaviour-differs"
    if (_behaviour(base["run_stdout"]), base["run_exit"]) != (_behaviour(var["run_stdout"]), var["run_exit"]):
        return "behaviour-differs"
    return None


_TRAP = re.compile(r"^in \S*::(\S+ : entered unreachable code)", re.M)


def _behaviour(out):
    """the output of the executable, without the *file* part of the location that a runtime trap
    (`in mod1::lambda#f : entered unreachable code: ..`) prints: which file a function lives in is
    exactly what a variant changes, and the message only says where the function is"""
    return _TRAP.sub(r"in ::\1", out) if out else out


# ------------------------------------------------------------------------------------------
# known findings

def finding_matches(entry, klass, divergence, var):
    m = entry.get("match", {})
    if m.get("divergence") and m["divergence"] != divergence:
        return False
    if m.get("program_class") and m["program_class"] != klass:
        return False
    pat = m.get("all_errors_match")
    if pat:
        errs = var.get("errors") or []
        if not errs or not all(re.search(pat, e) for e in errs):
            return False
    return True


# ------------------------------------------------------------------------------------------
# worker task: one program, its base and k variants

def program_for(seed, idx, features=None):
    rnd = random.Random(common.sub_seed(seed, "c20-program", idx))
    prog = gen.generate(rnd, features=features)
    return prog, rnd


def files_for(seed, idx, j, max_files=3):
    """the source files of program idx under its j-th variant (j < 0: base order); the same
    sequence of draws as in `task`"""
    prog, rnd = program_for(seed, idx)
    if j < 0:
        return gen.render(prog, gen.base_variant(prog))
    files = None
    for _ in range(j + 1):
        variant = gen.place_imports(prog, gen.random_variant(prog, rnd, max_files), rnd)
        files = gen.render(prog, variant)
    return files


def task(t):
    seed, idx, k, traces_dir, max_files = t
    bx = common.worker_box()
    prog, rnd = program_for(seed, idx)
    if "use_core" in prog.features:
        bx.use_real_core()
    base_variant = gen.base_variant(prog)
    base_files = gen.render(prog, base_variant)
    base = build_and_run(bx, base_files)
    r = {
        "idx": idx,
        "klass": prog.klass(),
        "features": prog.features,
        "globals": len(prog.items) - 3,
        "base_accepted": base["accepted"],
        "base": public(base) if not base["accepted"] else None,
        "variants": 0,
        "sigs": [base["sched_sig"]],
        "nontrivial": 0,
        "cyclic_rounds": base["sched"]["cyclic_rounds"],
        "restarts": base["sched"]["restarts"],
        "rounds": base["sched"]["rounds"],
        "multi_file": 0,
        "divergences": [],
        "sample": None,
    }
    ntr = 0
    if traces_dir and base.get("_trace"):
        with open(os.path.join(traces_dir, "p%06d-base.trace" % idx), "w") as f:
            f.write(base["_trace"])
        ntr += 1
    if base["accepted"] and (base["run_exit"] is None or base["run_exit"] < 0 or base.get("run_timed_out")):
        # the program was accepted but its executable dies by a signal or hangs: a miscompilation
        # of some construct (other properties' territory). Whether it crashes can depend on code
        # layout, so such a program cannot serve as a reference and is discarded (and counted).
        base["accepted"] = False
        base["errors"] = ["<base executable killed by signal %s>" % base["run_exit"]]
        r["base_accepted"] = False
        r["base"] = public(base)
    if not base["accepted"]:
        r["base_files"] = base_files
        if base.get("run_exit") is not None or base["timed_out"]:
            return r        # its executable died by a signal / the compiler hung: discarded
        # The base order is rejected (or crashes the compiler). Order-independence cuts both
        # ways: if *any* other order of the same program is accepted, acceptance depends on the
        # order. Look for one; it then plays the part of the reference and the base order is the
        # diverging one ("swapped").
        for j in range(k):
            variant = gen.place_imports(prog, gen.random_variant(prog, rnd, max_files), rnd)
            files = gen.render(prog, variant)
            var = build_and_run(bx, files)
            r["variants"] += 1
            if var["accepted"] and var["run_exit"] is not None and var["run_exit"] >= 0:
                d = compare(var, base)
                r["divergences"].append({
                    "variant_index": j,
                    "class": d or "variant-rejected",
                    "swapped": True,
                    "variant": variant.to_json(),
                    "variant_files": base_files,       # the order that fails: the base order
                    "base_files": files,               # the order that is accepted
                    "base": public(var),
                    "var": public(base),
                })
                break
        return r
    for j in range(k):
        variant = gen.place_imports(prog, gen.random_variant(prog, rnd, max_files), rnd)
        files = gen.render(prog, variant)
        var = build_and_run(bx, files)
        d = compare(base, var)
        if d == "variant-timeout":
            # once more, so that a transient stall of the machine cannot raise an alarm
            var = build_and_run(bx, files)
            d = compare(base, var)
        r["variants"] += 1
        r["sigs"].append(var["sched_sig"])
        if var["sched_sig"] != base["sched_sig"]:
            r["nontrivial"] += 1
        if len(files) > 1:
            r["multi_file"] += 1
        r["cyclic_rounds"] += var["sched"]["cyclic_rounds"]
        r["restarts"] += var["sched"]["restarts"]
        r["rounds"] += var["sched"]["rounds"]
        if traces_dir and var.get("_trace"):
            with open(os.path.join(traces_dir, "p%06d-v%02d.trace" % (idx, j)), "w") as f:
                f.write(var["_trace"])
        if d:
            r["divergences"].append({
                "variant_index": j,
                "class": d,
                "variant": variant.to_json(),
                "variant_files": files,
                "base_files": base_files,
                "base": public(base),
                "var": public(var),
            })
        elif r["sample"] is None and var["sched_sig"] != base["sched_sig"]:
            r["sample"] = {
                "program_index": idx,
                "base_order": base_variant.order,
                "variant_order": variant.order,
                "files": sorted(files),
                "base_schedule": base["sched_sig"],
                "variant_schedule": var["sched_sig"],
                "output": base["run_stdout"][:200],
                "exit": base["run_exit"],
            }
    return r


# ------------------------------------------------------------------------------------------
# minimisation

def minimise(seed, idx, div, budget=120):
    """shrink (program, variant) while the same divergence class persists.
    returns a replay document"""
    bx = common.worker_box()
    prog, _ = program_for(seed, idx)
    if "use_core" in prog.features:
        bx.use_real_core()
    order = [list(f) for f in div["variant"]["order"]]
    via = {(a, b): c for a, b, c in div["variant"].get("via", [])}
    cls = div["class"]
    swapped = bool(div.get("swapped"))
    trials = [0]

    def diverges(p, ordr):
        if trials[0] >= budget:
            return None
        trials[0] += 1
        try:
            bf = gen.render(p, gen.base_variant(p))
            vf = gen.render(p, gen.Variant(ordr, via if len(ordr) == 3 else None))
        except KeyError:
            return None
        if swapped:
            # the accepted order is the variant, the failing one the base order
            bf, vf = vf, bf
        b = build_and_run(bx, bf, want_trace=False)
        if not b["accepted"]:
            return None
        v = build_and_run(bx, vf, want_trace=False)
        if compare(b, v) == cls:
            return (bf, vf, b, v)
        return None

    best = diverges(prog, order)
    if best is None:
        return None
    # 1. drop globals nothing depends on
    progress = True
    while progress and trials[0] < budget:
        progress = False
        for name in prog.removable():
            p2 = prog.without({name})
            o2 = [[n for n in f if n != name] for f in order]
            o2 = [f for i, f in enumerate(o2) if f or i == 0]
            if len(o2) != len(order):
                continue  # would renumber the files; keep it simple
            got = diverges(p2, o2)
            if got:
                prog, order, best = p2, o2, got
                progress = True
    # 2. fewer files: move everything into the entry file, keeping relative order
    if len(order) > 1 and trials[0] < budget and not getattr(prog, "pins", None):
        merged = [[n for f in order for n in f if not n.startswith("@")]]
        got = diverges(prog, merged)
        if got:
            order, best = merged, got
    # 3. bring the order closer to the base order (undo adjacent inversions)
    base_pos = {n: i for i, n in enumerate(prog.names())}
    progress = True
    while progress and trials[0] < budget:
        progress = False
        for fi in range(len(order)):
            for i in range(len(order[fi]) - 1):
                a, b = order[fi][i], order[fi][i + 1]
                if a.startswith("@") or b.startswith("@"):
                    continue
                if base_pos[a] > base_pos[b]:
                    o2 = [list(x) for x in order]
                    o2[fi][i], o2[fi][i + 1] = b, a
                    got = diverges(prog, o2)
                    if got:
                        order, best = o2, got
                        progress = True
    bf, vf, b, v = best
    return {
        "format": "capysim-c20-replay-v1",
        "property": PROP,
        "seed": seed,
        "program_index": idx,
        "class": cls,
        "program_class": prog.klass(),
        "world": boxmod.REFERENCE_WORLD,
        "base_files": bf,
        "variant_files": vf,
        "variant_order": order,
        "base_outcome": public(b),
        "variant_outcome": public(v),
        "minimisation_trials": trials[0],
        "original_variant_files": div["variant_files"],
        "swapped": swapped,
    }


def replay(path):
    with open(path) as f:
        doc = json.load(f)
    bx = common.worker_box()
    if any('#mod("core")' in t for t in doc["base_files"].values()):
        bx.use_real_core()
    entry = doc.get("entry", "main.capy")
    b = build_and_run(bx, doc["base_files"], entry=entry, world=doc.get("world"))
    v = build_and_run(bx, doc["variant_files"], entry=entry, world=doc.get("world"))
    d = compare(b, v) if b["accepted"] else None
    print("base:    accepted=%s exit=%s stdout=%r" % (b["accepted"], b["run_exit"], (b["run_stdout"] or "")[:120]))
    print("variant: accepted=%s exit=%s stdout=%r errors=%s" % (
        v["accepted"], v["run_exit"], (v["run_stdout"] or "")[:120], v["errors"][:3]))
    if d:
        print("replay reproduces: class=%s (recorded %s)" % (d, doc.get("class")))
        common.report_violation(PROP, path, "%s: %s" % (d, (v["errors"] or [""])[0]))
        return common.EXIT_VIOLATION
    print("replay: base and variant agree (no violation)")
    return common.EXIT_OK


# ------------------------------------------------------------------------------------------

# ------------------------------------------------------------------------------------------
# corpus family: the repository's own programs (examples/, the sources inside its test suites)
# under permutations of their top-level definitions

def corpus_programs():
    """-> list of (label, files, entry, uses_core)"""
    out = []
    exdir = os.path.join(common.REPO, "examples")
    try:
        names = sorted(f for f in os.listdir(exdir) if f.endswith(".capy"))
    except OSError:
        names = []
    exfiles = {}
    for f in names:
        with open(os.path.join(exdir, f), encoding="utf-8") as fh:
            exfiles[f] = fh.read()
    for f in names:
        if corpus.split_items(exfiles[f]) is not None:
            out.append(("example:" + f, exfiles, f, True))
    for label, files, uses_core in corpus.snippets():
        if corpus.split_items(files["main.capy"]) is None:
            continue
        files = dict(files)
        if not re.search(r"^main\s*:", files["main.capy"], re.M):
            # the type-checker tests have no entry point; give them an empty one
            files["main.capy"] = files["main.capy"].rstrip("\n") + "\n\nmain :: () {}\n"
        out.append(("snippet:" + label, files, "main.capy", uses_core))
    return out


SHIFTED_WORLD = dict(boxmod.REFERENCE_WORLD, env_pad=4096, hole_brk=1 << 20, hole_mmap=1 << 21)


def corpus_task(t):
    seed, idx, k = t
    label, files, entry, uses_core = corpus_programs()[idx]
    rnd = random.Random(common.sub_seed(seed, "c20-corpus", idx))
    bx = common.worker_box()
    if uses_core:
        bx.use_real_core()
    base = build_and_run(bx, files, entry=entry)
    r = {"idx": idx, "label": label, "base_accepted": base["accepted"], "variants": 0,
         "sigs": [base["sched_sig"]], "divergences": [], "discarded": None}
    if base["accepted"] and (base["run_exit"] is None or base["run_exit"] < 0 or base.get("run_timed_out")):
        r["discarded"] = "executable killed by a signal or timed out"
        r["base_accepted"] = False
        return r
    if base["accepted"]:
        # a program whose output depends on addresses (it prints pointers) cannot be compared
        again = build_and_run(bx, files, entry=entry, world=SHIFTED_WORLD, want_trace=False)
        if compare(base, again):
            r["discarded"] = "output depends on the address-space layout"
            r["base_accepted"] = False
            return r
    if base["timed_out"]:
        r["discarded"] = "compiler timed out"
        return r
    for j in range(k):
        po = corpus.permute_order(files[entry], rnd)
        if po is None:
            break
        order, text = po
        vfiles = dict(files)
        vfiles[entry] = text
        var = build_and_run(bx, vfiles, entry=entry)
        r["variants"] += 1
        r["sigs"].append(var["sched_sig"])
        if base["accepted"]:
            d = compare(base, var)
            if d == "variant-timeout":
                var = build_and_run(bx, vfiles, entry=entry)
                d = compare(base, var)
            if d:
                r["divergences"].append({"variant_index": j, "class": d, "base_files": files,
                                         "variant_files": vfiles, "base": public(base), "var": public(var),
                                         "entry": entry, "order": order, "uses_core": uses_core})
        elif var["accepted"] and var["run_exit"] is not None and var["run_exit"] >= 0:
            # the order as written is rejected, another order of the same definitions is accepted
            d = compare(var, base) or "variant-rejected"
            r["divergences"].append({"variant_index": j, "class": d, "swapped": True, "base_files": vfiles,
                                     "variant_files": files, "base": public(var), "var": public(base),
                                     "entry": entry, "order": order, "uses_core": uses_core})
            break
    return r


def minimise_corpus(d, budget=40):
    """bring the diverging order of a corpus program closer to the order it was written in:
    undo adjacent inversions while the same divergence class persists.
    -> (files of the reference order, files of the diverging order, order, trials)"""
    bx = common.worker_box()
    if d.get("uses_core"):
        bx.use_real_core()
    entry = d["entry"]
    swapped = bool(d.get("swapped"))
    written = (d["variant_files"] if swapped else d["base_files"])
    order = list(d["order"])
    trials = [0]

    def diverges(ordr):
        if trials[0] >= budget:
            return False
        trials[0] += 1
        pf = dict(written)
        pf[entry] = corpus.apply_order(written[entry], ordr)
        ref, sub = (pf, written) if swapped else (written, pf)
        b = build_and_run(bx, ref, entry=entry, want_trace=False)
        if not b["accepted"]:
            return False
        v = build_and_run(bx, sub, entry=entry, want_trace=False)
        return compare(b, v) == d["class"]

    if not diverges(order):
        return None
    progress = True
    while progress and trials[0] < budget:
        progress = False
        for i in range(len(order) - 1):
            if order[i] > order[i + 1]:
                o2 = list(order)
                o2[i], o2[i + 1] = o2[i + 1], o2[i]
                if o2 != sorted(o2) and diverges(o2):
                    order, progress = o2, True
    pf = dict(written)
    pf[entry] = corpus.apply_order(written[entry], order)
    return ((pf, written) if swapped else (written, pf)) + (order, trials[0])


def run_batch(seed, n_programs, k, traces_dir=None, deadline=None, max_files=3):
    tasks = [(seed, i, k, traces_dir, max_files) for i in range(n_programs)]
    return common.parallel_map(task, tasks, deadline=deadline)


def main(tier, seed, replay_path=None):
    if replay_path:
        return replay(replay_path)
    t0 = time.time()
    if tier == "quick":
        n_programs, k, budget_s = 400, 8, 240
    else:
        n_programs, k, budget_s = 6000, 40, 3000
    n_programs = int(os.environ.get("C20_PROGRAMS", n_programs))
    results = run_batch(seed, n_programs, k, deadline=t0 + budget_s)
    open_findings, _fixed = common.load_known_findings(PROP)

    # the repository's own programs under permutations of their top-level definitions
    n_corpus_all = len(corpus_programs())
    if tier == "quick":
        n_corpus, k_corpus, corpus_budget = min(70, n_corpus_all), 3, 75
    else:
        n_corpus, k_corpus, corpus_budget = n_corpus_all, 12, 1500
    n_corpus = int(os.environ.get("C20_CORPUS", n_corpus))
    pick = random.Random(common.sub_seed(seed, "c20-corpus-pick"))
    corpus_idx = sorted(pick.sample(range(n_corpus_all), min(n_corpus, n_corpus_all)))
    corpus_results = common.parallel_map(corpus_task, [(seed, i, k_corpus) for i in corpus_idx],
                                         deadline=time.time() + corpus_budget) if corpus_idx else []

    programs = len(results)
    accepted = [r for r in results if r["base_accepted"]]
    rejected = [r for r in results if not r["base_accepted"]]
    variants = sum(r["variants"] for r in results)
    all_sigs = set()
    per_program_distinct = []
    for r in accepted:
        s = set(x for x in r["sigs"] if x)
        all_sigs |= s
        per_program_distinct.append(len(s))
    nontrivial = sum(r["nontrivial"] for r in results)
    violations = []
    known_hits = {}
    for r in results:
        for d in r["divergences"]:
            hit = None
            for e in open_findings:
                if finding_matches(e, r["klass"], d["class"], d["var"]):
                    hit = e
                    break
            if hit:
                known_hits.setdefault(hit["id"], []).append((r["idx"], d))
            else:
                violations.append((r["idx"], r["klass"], d))

    corpus_divs = 0
    for r in corpus_results:
        for d in r["divergences"]:
            corpus_divs += 1
            violations.append((("corpus", r["idx"], r["label"]), "corpus", d))

    for fid, hits in sorted(known_hits.items()):
        e = [x for x in open_findings if x["id"] == fid][0]
        common.report_known(PROP, "%s: %s (re-observed on %d variants, e.g. program %d)" % (
            fid, e.get("what", ""), len(hits), hits[0][0]))

    # one report per (divergence class, first diagnostic with names blanked); the first few
    # groups are minimised
    groups = {}
    for idx, klass, d in violations:
        first = (d["var"]["errors"] or ["-"])[0]
        if first == "-":
            # a compiler crash has no diagnostic; tell crashes apart by where they panicked
            m = re.search(r"panicked at ([^\n]*)", (d["var"].get("compile_stderr_tail") or "")
                          + (d["var"].get("compile_stdout_tail") or ""))
            if m:
                first = "panicked at " + re.sub(r":\d+:\d+:?$", "", m.group(1).strip())
        key = (d["class"], re.sub(r"`[^`]*`", "`_`", first))
        groups.setdefault(key, []).append((idx, klass, d))
    reported = []
    for key in sorted(groups):
        idx, klass, d = groups[key][0]
        is_corpus = isinstance(idx, tuple)
        doc = minimise(seed, idx, d) if (len(reported) < 6 and not is_corpus) else None
        if is_corpus:
            doc = {
                "format": "capysim-c20-replay-v1", "property": PROP, "seed": seed,
                "program_index": idx[1], "corpus_label": idx[2], "class": d["class"],
                "program_class": "corpus", "world": boxmod.REFERENCE_WORLD, "entry": d["entry"],
                "base_files": d["base_files"], "variant_files": d["variant_files"],
                "base_outcome": d["base"], "variant_outcome": d["var"], "minimised": False,
                "swapped": bool(d.get("swapped")),
            }
            if len(reported) < 6 and d.get("order"):
                m = minimise_corpus(d)
                if m:
                    doc["base_files"], doc["variant_files"], doc["variant_order"], doc["minimisation_trials"] = m
                    doc["minimised"] = True
            idx = "corpus%d" % idx[1]
        if doc is None:
            doc = {
                "format": "capysim-c20-replay-v1", "property": PROP, "seed": seed,
                "program_index": idx, "class": d["class"], "program_class": klass,
                "world": boxmod.REFERENCE_WORLD,
                "base_files": d["base_files"], "variant_files": d["variant_files"],
                "variant_order": d["variant"]["order"],
                "base_outcome": d["base"], "variant_outcome": d["var"], "minimised": False,
            }
        doc["same_group_programs"] = [str(i) for i, _, _ in groups[key]][:50]
        path = common.write_replay(PROP, "c20-seed%d-p%s-v%d-%s.json" % (
            seed, idx, d["variant_index"], d["class"]), doc)
        summary = "%s on program %s (class %s), %d variants alike: %s" % (
            d["class"], idx, klass, len(groups[key]),
            (doc["variant_outcome"]["errors"] or
             [(doc["variant_outcome"].get("compile_stdout_tail") or "")[-160:].replace("\n", " | ")])[0])
        common.report_violation(PROP, path, summary)
        reported.append(path)
        if len(reported) >= 12:
            break

    wall = time.time() - t0
    feature_counts = {}
    for r in accepted:
        for f in r["features"]:
            feature_counts[f] = feature_counts.get(f, 0) + 1
    rejected_reasons = {}
    for r in rejected:
        b = r["base"] or {}
        key = "timeout" if b.get("timed_out") else "compiler-crash" if b.get("crashed") else \
            (b.get("errors") or ["?"])[0][:60]
        rejected_reasons[key] = rejected_reasons.get(key, 0) + 1
    samples = [r["sample"] for r in accepted if r["sample"]][:3]
    if not samples:
        samples = [{"program_index": r["idx"], "note": "no variant with a different schedule"}
                   for r in accepted[:1]] or [{"note": "no accepted program"}]
    coverage = {
        "evaluations": programs + variants,
        "distinct_nontrivial": len(all_sigs),
        "rule": "A case is one (program, order) pair: a generated program of 3-12 interdependent "
                "globals built and run under one permutation/partition/import order. Distinct = "
                "distinct scheduler-event sequences recorded by hook H1 (names made file-"
                "independent); all counted sequences come from accepted builds; a variant is "
                "non-trivial when its sequence differs from its base's.",
        "samples": samples,
        "programs": programs,
        "programs_accepted": len(accepted),
        "programs_rejected_in_base_order": len(rejected),
        "rejected_base_reasons": rejected_reasons,
        "variants": variants,
        "variants_with_schedule_different_from_base": nontrivial,
        "variants_in_more_than_one_file": sum(r["multi_file"] for r in results),
        "distinct_schedules_total": len(all_sigs),
        "mean_distinct_schedules_per_program": round(
            sum(per_program_distinct) / max(1, len(per_program_distinct)), 2),
        "scheduler_rounds": sum(r["rounds"] for r in results),
        "cyclic_rounds": sum(r["cyclic_rounds"] for r in results),
        "task_restarts": sum(r["restarts"] for r in results),
        "programs_class_A": len([r for r in accepted if r["klass"] == "A"]),
        "programs_class_B": len([r for r in accepted if r["klass"] == "B"]),
        "feature_counts": feature_counts,
        "corpus_family": {
            "programs_available": n_corpus_all,
            "programs_run": len(corpus_results),
            "programs_accepted_in_written_order": len([r for r in corpus_results if r["base_accepted"]]),
            "programs_discarded": len([r for r in corpus_results if r["discarded"]]),
            "permutations_built": sum(r["variants"] for r in corpus_results),
            "divergences": corpus_divs,
            "note": "examples/ and the capy sources inside the repository's own test suites (read "
                    "from /repo at run time), each compared with permutations of its top-level "
                    "definitions; programs that are rejected as written are still permuted "
                    "(an accepted permutation would be a divergence)",
        },
        "divergences_total": sum(len(r["divergences"]) for r in results) + corpus_divs,
        "divergences_matching_known_findings": sum(len(v) for v in known_hits.values()),
        "runs_per_hour": int((programs + variants) / max(wall, 1e-9) * 3600),
        "simulated_components": {
            "real": ["capy compiler binary (release, hooks compiled in)", "gcc/ld", "built executables"],
            "controlled": ["address-space layout (ASLR off)", "getrandom", "clock", "pid", "environment",
                           "file tree"],
            "stub": [],
        },
        "repo_state": common.repo_state(),
    }
    common.write_evidence(
        PROP, tier, seed, LEVEL, coverage,
        ["gcc, ld and the built executables are deterministic given identical inputs with ASLR off",
         "generator G's programs are well-typed capy (calibrated on the unchanged tree)",
         "sampling, not enumeration: a clean batch is evidence, not proof"],
        wall, len(violations))
    print("C20 %s: corpus family: %d programs, %d permutations, %d divergences" % (
        tier, len(corpus_results), sum(r["variants"] for r in corpus_results), corpus_divs))
    print("C20 %s: %d programs (%d accepted), %d variants, %d distinct schedules, %d divergences "
          "(%d known), %.0fs" % (tier, programs, len(accepted), variants, len(all_sigs),
                                 coverage["divergences_total"],
                                 coverage["divergences_matching_known_findings"], wall))
    if violations:
        return common.EXIT_VIOLATION
    if programs >= 20 and len(accepted) < 0.8 * programs:
        # the property only speaks about accepted programs; if the compiler rejects (or crashes
        # on) most of the generated programs in their base order there is nothing left to explore
        # and "no divergence" would be vacuous. That is not a violation of C20 - it is a run that
        # cannot decide.
        print("HARNESS-ERROR: only %d of %d generated programs were accepted in their base order "
              "(reasons: %s); the check cannot decide C20 on this tree" % (
                  len(accepted), programs, rejected_reasons))
        return common.EXIT_HARNESS
    return common.EXIT_OK
