"""C21 — builds are reproducible.

What is simulated: one compiler process per run inside the capysim box. The source files and
the command line stay byte-identical; the *world* varies every source of nondeterminism a
compiler process has (address-space layout class and shifts, heap fill and allocator
thresholds, hash seeds, clock incl. jumps, pid, environment noise, legal I/O behaviour) and the
*history* of the output directory (stale larger object, a previous build killed at a seeded
point, a previous build that hit ENOSPC, repeated builds), plus the order of the import
declarations in the entry file (the closest the CLI has to "the order in which the files are
supplied"; since that edits a source file, differences there are counted, not reported).

Oracle: for every run that ends without an injected hard fault, the object bytes, the exit
status and the diagnostic output (timing fragments masked) equal those of the reference run.
From the event log (counted, not binding - it is mechanism, not result): the object is written by
exactly one truncating open followed by writes that add up to its length.
"""

import json
import os
import random
import re
import time

from . import box as boxmod
from . import common, corpus, gen

PROP = "C21"
LEVEL = "exploration"

O_TRUNC_CREAT_WRONLY = 0x241


# ------------------------------------------------------------------------------------------
# workload

COMPTIME_AGG_TEMPLATES = [
    # (name, source) — comptime blocks whose results are aggregates; memory of the compiler
    # process flows into the object through them
    ("pad_struct", """
S :: struct { a: u8, b: u64, c: u8 };
make :: () -> S { S.{ a = %(a)d, b = %(b)d, c = %(c)d } }
g :: comptime { make() };
main :: () -> i32 { x := g; i32.(x.a) + i32.(x.c) }
"""),
    ("array_of_struct", """
P :: struct { t: u8, v: i32, w: u16 };
mk :: (i: i32) -> P { P.{ t = u8.(i), v = i * %(a)d, w = u16.(i + %(b)d) } }
g :: comptime { P.[mk(1), mk(2), mk(3)] };
main :: () -> i32 { x := g; x[1].v + i32.(x[2].w) }
"""),
    ("nested", """
In :: struct { a: u8, b: u32 };
Out :: struct { x: u16, i: In, y: u8, z: u64 };
g :: comptime { Out.{ x = %(a)d, i = In.{ a = %(c)d, b = %(b)d }, y = 3, z = 9 } };
main :: () -> i32 { v := g; i32.(v.i.b) + i32.(v.y) }
"""),
    ("enum_payload", """
E :: enum { A, B: u8, C: u64 };
pick :: (n: i64) -> E { if n > 3 { E.C.(%(b)d) } else { E.B.(%(c)d) } }
g :: comptime { pick(%(a)d) };
h :: comptime { pick(1) };
score :: (e: E) -> i64 { switch v in e { .A => i64.(0), .B => i64.(u8.(v)), .C => i64.(u64.(v)) } }
main :: () -> i32 { i32.(score(g) + score(h)) }
"""),
    ("optional", """
opt :: (n: i64) -> ?u16 { if n > 2 { u16.(n) } else { nil } }
g :: comptime { opt(%(a)d) };
h :: comptime { opt(1) };
big :: (n: i64) -> ?u64 { if n > 2 { u64.(n) } else { nil } }
k :: comptime { big(%(b)d) };
main :: () -> i32 { x := g; y := h; z := k; %(c)d }
"""),
    ("ints_and_arrays", """
g :: comptime { i32.[%(a)d, %(b)d, %(c)d] };
h :: comptime { u8.[1, 2, 3, 4, 5] };
k : u64 : comptime { %(b)d * 3 };
main :: () -> i32 { g[0] + i32.(h[4]) + i32.(k) }
"""),
    # comptime results that contain addresses (rejected since fix F-C21-2; before it, the
    # address of JIT memory was baked into the object)
    ("str_result", """
puts :: (s: str) -> i32 extern;
g :: comptime { "hello %(a)d" };
main :: () -> i32 { puts(g); %(c)d }
"""),
    ("struct_with_str", """
Named :: struct { name: str, n: i32 };
mkn :: () -> Named { Named.{ name = "abc", n = %(a)d } }
g :: comptime { mkn() };
main :: () -> i32 { x := g; x.n }
"""),
    ("slice_result", """
h :: comptime { s : []i32 = i32.[%(a)d, %(b)d, %(c)d]; s };
main :: () -> i32 { h[1] }
"""),
    # constant array globals whose elements come from comptime blocks (element size < stride)
    ("array_literal_global", """
W :: struct { a: u64, b: u8 };
arr :: W.[comptime { W.{ a = %(a)d, b = 2 } }, comptime { W.{ a = %(b)d, b = 4 } }, comptime { W.{ a = 5, b = %(c)d } }];
main :: () -> i32 { i32.(arr[1].b) }
"""),
    # constant data assembled from *other globals* whose own type is narrower than the place they
    # are used at (an untyped literal global, a typed narrower global, a comptime block whose
    # body type is narrower than the annotation)
    ("const_array_mixed", """
B :: %(a)d;
C : i64 : %(b)d;
U : u8 : %(c)d;
ARR :: i64.[C, B, 3];
ARR2 :: u16.[U, 300, U];
main :: () -> i32 { i32.(ARR[1]) + i32.(ARR2[0]) + i32.(ARR2[2]) }
"""),
    ("typed_narrow_global", """
B : i64 : comptime { t : i32 = %(a)d; t + 1 };
A :: comptime { x : i64 = 5; y : i64 = B; x + y };
F : f64 : comptime { t : f32 = 1.5; t };
main :: () -> i32 { i32.(B) + i32.(A) + i32.(F) }
"""),
    ("const_alias_chain", """
base : u16 : %(a)d;
w1 :: base;
w2 :: w1;
words :: u32.[w2, base, %(b)d];
flag :: true;
flags :: bool.[flag, false, flag];
main :: () -> i32 { v := i32.(words[0]) + i32.(words[1]); if flags[2] { v } else { %(c)d } }
"""),
    # several `type` values inside one comptime aggregate (their ids are written when the result
    # is read, in the order of the recorded offsets)
    ("type_table", """
Sa :: struct { a: i32 };
Sb :: struct { b: i64, c: u8 };
Sc :: struct { d: [2]u16 };
Row :: struct { t: type, n: i32 };
schema :: comptime { Row.[Row.{ t = Sb, n = %(a)d }, Row.{ t = Sc, n = %(b)d }, Row.{ t = Sa, n = %(c)d }, Row.{ t = [3]Sa, n = 4 }] };
main :: () -> i32 { n : i32 = 0; if schema[0].t == Sb { n = n + 1; } if schema[2].t == Sa { n = n + 2; } n + schema[1].n }
"""),
    # a variant cast to its enum inside a comptime block: the discriminant is the last byte of
    # the value, which sits at the end of a stack slot of the JIT-compiled function
    ("variant_enum_tail", """
width :: %(a)d;
height :: 2;
depth :: 3;
count :: 4;
Shape :: enum { Empty, Bytes: [17]u8 };
first : Shape : comptime { Shape.Empty };
other :: comptime { %(b)d };
main :: () -> i32 {
    v :: comptime { x : ?Shape = first; x };
    %(c)d
}
"""),
    # constants whose value has to be *converted* to the type of the place that reads them:
    # a plain value for an optional, an untyped array literal read at a wider element type
    ("optional_const", """
limit : ?i64 : %(a)d;
has_limit :: comptime { l := limit; if l == nil { 0 } else { 1 } };
small : ?u8 : comptime { %(c)d };
main :: () -> i32 { copy :: comptime { limit }; has_limit }
"""),
    ("weak_array_wide", """
primes :: .[2, 3, 5, 7, %(a)d, 13, 17, %(b)d];
main :: () -> i32 { table : [8]i64 : comptime { primes }; i32.(table[7]) }
"""),
    ("tuple_like", """
Pair :: struct { k: u8, v: [3]u16, last: u8 };
mk :: (n: u16) -> Pair { Pair.{ k = %(c)d, v = u16.[n, n + 1, n + 2], last = 7 } }
g :: comptime { mk(%(a)d) };
t :: comptime { Pair.[mk(1), mk(%(b)d)] };
main :: () -> i32 { i32.(g.v[2]) + i32.(t[1].last) }
"""),
]


def comptime_agg_program(rnd):
    n = rnd.randint(1, 3)
    picks = rnd.sample(COMPTIME_AGG_TEMPLATES, n)
    # one template provides main, the others are renamed into side modules' namespaces by
    # wrapping their globals in differently named files
    name, src = picks[0]
    vals = {"a": rnd.randint(4, 90), "b": rnd.randint(4, 90), "c": rnd.randint(1, 90)}
    files = {"main.capy": src.lstrip("\n") % vals}
    for i, (nm, s) in enumerate(picks[1:]):
        vals = {"a": rnd.randint(4, 90), "b": rnd.randint(4, 90), "c": rnd.randint(1, 90)}
        body = (s.lstrip("\n") % vals).replace("main :: () -> i32", "entry%d :: () -> i32" % i)
        files["side%d.capy" % i] = body
        files["main.capy"] = ('s%d :: #import("side%d.capy");\n' % (i, i)) + files["main.capy"] \
            + "use%d :: () -> i32 { s%d.entry%d() }\n" % (i, i, i)
    return files, "agg:" + "+".join(p[0] for p in picks)

WORDS = ["alpha", "beta", "gamma", "delta", "omega", "sigma", "kappa", "zeta", "theta", "lambda"]


def data_program(rnd):
    """programs that lean on the parts of the object built from tables of the compiler: string
    and float data, reflection metadata for many types (core.println prints through type info),
    several files"""
    prim = ["i32", "u8", "i64", "f64", "bool", "str", "u16", "f32", "char", "u128", "i128"]
    lit = {"i32": lambda: str(rnd.randint(0, 999)), "u8": lambda: str(rnd.randint(0, 200)),
           "i64": lambda: str(rnd.randint(0, 10**9)), "f64": lambda: "%d.%d" % (rnd.randint(0, 99), rnd.randint(1, 99)),
           "bool": lambda: rnd.choice(["true", "false"]), "str": lambda: '"%s %s"' % (rnd.choice(WORDS[:3]), rnd.choice(WORDS)),
           "u16": lambda: str(rnd.randint(0, 60000)), "f32": lambda: "%d.5" % rnd.randint(0, 99),
           "char": lambda: "'%s'" % rnd.choice("abcxyz"),
           "u128": lambda: str(rnd.randint(0, 2**62)), "i128": lambda: str(rnd.randint(0, 2**60))}
    types = []      # (name, kind, fields)
    defs = []
    for i in range(rnd.randint(2, 6)):
        k = rnd.choice(["struct", "struct", "enum", "distinct"])
        name = "%s%d" % ({"struct": "Rec", "enum": "Opt", "distinct": "Num"}[k], i)
        if k == "struct":
            fields = [("f%d" % j, rnd.choice(prim)) for j in range(rnd.randint(1, 5))]
            # members that are themselves compound types: earlier records, arrays (their type ids
            # and reflection rows are handed out while the struct's own id is computed)
            earlier = [t for t in types if t[1] == "struct"]
            for j in range(rnd.randint(0, 3)):
                if earlier and rnd.random() < 0.6:
                    fields.append(("n%d" % j, "@" + rnd.choice(earlier)[0]))
                else:
                    fields.append(("a%d" % j, "[%d]%s" % (rnd.randint(1, 4), rnd.choice(["u8", "i32", "i64", "f64"]))))
            rnd.shuffle(fields)
            defs.append("%s :: struct { %s };" % (name, ", ".join(
                "%s: %s" % (f, t[1:] if t.startswith("@") else t) for f, t in fields)))
            types.append((name, k, fields))
        elif k == "enum":
            vs = []
            for j in range(rnd.randint(2, 5)):
                t = rnd.choice([None, None] + prim[:5])
                vs.append(("K%d" % j, t))
            defs.append("%s :: enum { %s };" % (name, ", ".join(v if t is None else "%s: %s" % (v, t) for v, t in vs)))
            types.append((name, k, vs))
        else:
            t = rnd.choice(["i32", "u8", "i64", "f64"])
            defs.append("%s :: distinct %s;" % (name, t))
            types.append((name, k, t))
    by_name = {t[0]: t for t in types}

    def value(t):
        if t.startswith("@"):
            rec = by_name[t[1:]]
            return "%s.{ %s }" % (rec[0], ", ".join("%s = %s" % (f, value(ft)) for f, ft in rec[2]))
        if t.startswith("["):
            n, et = t[1:].split("]")
            return "%s.[%s]" % (et, ", ".join(lit[et]() for _ in range(int(n))))
        return lit[t]()

    stmts = []
    # `type` values: comparing and passing types forces their type ids
    recs = [t[0] for t in types if t[1] == "struct"]
    if recs and rnd.random() < 0.6:
        defs.append("pick_ty :: () -> type { %s }" % rnd.choice(recs))
        defs.append("is_rec :: (t: type) -> bool { %s }" % " || ".join("t == %s" % r for r in recs))
        stmts.append("core.println(is_rec(pick_ty()));")
    for i in range(rnd.randint(3, 10)):
        r = rnd.random()
        if r < 0.35:
            args = [lit[rnd.choice(prim)]() for _ in range(rnd.randint(1, 4))]
            stmts.append("core.println(%s);" % ", ".join(args))
        elif r < 0.8 and types:
            name, k, info = rnd.choice(types)
            if k == "struct":
                stmts.append("core.println(%s.{ %s });" % (name, ", ".join("%s = %s" % (f, value(t)) for f, t in info)))
            elif k == "enum":
                v, t = rnd.choice(info)
                stmts.append("core.println(%s.%s%s);" % (name, v, "" if t is None else ".(%s)" % lit[t]()))
            else:
                stmts.append("core.println(%s.(%s));" % (name, lit[info]()))
        else:
            t = rnd.choice(["i32", "u8", "f64", "str"])
            stmts.append("core.println(%s.[%s]);" % (t, ", ".join(lit[t]() for _ in range(rnd.randint(1, 4)))))
    files = {}
    side = False  # (records now refer to each other and to helper functions; keep one file)
    if side:
        cut = rnd.randint(1, len(defs) - 1)
        files["types.capy"] = "\n".join(defs[cut:]) + "\n"
        side_names = [t[0] for t in types[cut:]]
        body = "\n".join(stmts)
        for n in side_names:
            body = body.replace("println(%s." % n, "println(ty.%s." % n)
        files["main.capy"] = ('core :: #mod("core");\nty :: #import("types.capy");\n' + "\n".join(defs[:cut])
                              + "\nmain :: () {\n    " + body.replace("\n", "\n    ") + "\n}\n")
    else:
        files["main.capy"] = ('core :: #mod("core");\n' + "\n".join(defs)
                              + "\nmain :: () {\n    " + "\n    ".join(stmts) + "\n}\n")
    return files, "data:%dtypes%s" % (len(types), "+side" if side else "")


def break_program(rnd, files):
    """one seeded breaking mutation on a valid program's text -> diagnostics"""
    # prefer a file that has not been broken yet
    fresh = [f for f in sorted(files) if "zz_" not in files[f] and "undefined_name_" not in files[f]]
    name = rnd.choice(fresh or sorted(files))
    text = files[name]
    lines = text.split("\n")
    kind = rnd.choice(["undefined", "duplicate", "syntax", "type", "missing_import", "bad_call", "type",
                       "drop_members", "drop_members", "extra_members"])
    # struct literals with at least two `name = value` members on one line
    lits = []
    for i, l in enumerate(lines):
        for m in re.finditer(r"\b((?:imp\d\.)?S\d+)\.\{ ([^{}]*) \}", l):
            parts = [x for x in m.group(2).split(", ") if re.match(r"^m\d+ = ", x)]
            if len(parts) >= 3 and ", ".join(parts) == m.group(2):
                lits.append((i, m, parts))
    if kind in ("drop_members", "extra_members") and not lits:
        kind = "type"
    cand = [i for i, l in enumerate(lines) if "emit(" in l and "::" not in l]
    defs = [i for i, l in enumerate(lines) if re.match(r"^[A-Za-z_]\w* :", l)]
    if kind == "undefined" and cand:
        i = rnd.choice(cand)
        lines[i] = lines[i].replace("emit(", "emit(undefined_name_%d + " % rnd.randint(0, 9), 1)
    elif kind == "duplicate" and defs:
        i = rnd.choice(defs)
        m = re.match(r"^([A-Za-z_]\w*) :", lines[i])
        lines.insert(i, "%s :: 5;" % m.group(1))
    elif kind == "syntax":
        i = rnd.randrange(len(lines))
        lines[i] = lines[i] + rnd.choice([" )", " }", " @", " ::", " ("])
    elif kind == "type" and defs:
        i = rnd.choice(defs)
        if ": i64 :" in lines[i]:
            lines[i] = lines[i].replace(": i64 :", ": bool :", 1)
        else:
            lines.append("zz_bad : bool : 12;")
    elif kind == "drop_members":
        # several members of one literal are missing: one diagnostic each, in a fixed order
        i, m, parts = rnd.choice(lits)
        keep = rnd.randint(0, len(parts) - 2)
        kept = rnd.sample(parts, keep)
        kept = [x for x in parts if x in kept]
        lines[i] = lines[i][:m.start(2)] + ", ".join(kept) + lines[i][m.end(2):]
    elif kind == "extra_members":
        # several members that the struct does not have
        i, m, parts = rnd.choice(lits)
        extra = ["zz%d = %d" % (k, k) for k in range(rnd.randint(2, 4))]
        lines[i] = lines[i][:m.start(2)] + ", ".join(parts + extra) + lines[i][m.end(2):]
    elif kind == "missing_import":
        lines.insert(0, 'nope :: #import("does_not_exist.capy");')
    else:
        lines.append("zz_call :: () -> i64 { emit(1, 2, 3) }")
    out = dict(files)
    out[name] = "\n".join(lines)
    return out, kind


def make_program(rnd):
    """-> (files, entry, label, needs_core, import_lines)"""
    r = rnd.random()
    if r < 0.12:
        exs = sorted(f for f in os.listdir(os.path.join(common.REPO, "examples")) if f.endswith(".capy"))
        name = rnd.choice(exs)
        files = {}
        for f in exs:
            with open(os.path.join(common.REPO, "examples", f)) as fh:
                files[f] = fh.read()
        return files, name, "example:" + name, True
    if r < 0.30:
        files, label = comptime_agg_program(rnd)
        return files, "main.capy", label, False
    if r < 0.40:
        # the capy sources inside the repository's own test suites: small programs, one per
        # diagnostic kind the type checker knows, many of them invalid on purpose
        snips = corpus.snippets()
        if snips:
            label, files, uses_core = rnd.choice(snips)
            return dict(files), "main.capy", "corpus:" + label.split("/")[-1], uses_core
    if r < 0.52:
        files, label = data_program(rnd)
        return files, "main.capy", label, True
    prog = gen.generate(rnd)
    variant = gen.random_variant(prog, rnd)
    # keep generation order inside each file: C21 is not about definition order
    pos = {n: i for i, n in enumerate(prog.names())}
    variant = gen.Variant([sorted(f, key=lambda n: pos[n]) for f in variant.order], variant.via)
    files = gen.render(prog, variant)
    label = "G-valid"
    needs_core = "use_core" in prog.features
    if r > 0.72:
        # one to three seeded mutations; with several files they tend to land in different ones,
        # so that diagnostics of more than one file have to come out in a stable order
        kinds = []
        for _ in range(rnd.choice([1, 1, 2, 3])):
            files, kind = break_program(rnd, files)
            kinds.append(kind)
        label = "G-invalid:" + "+".join(sorted(set(kinds)))
    return files, "main.capy", label, needs_core


def permute_imports(rnd, text):
    """reorder the import declarations that sit on consecutive lines at the top of the entry
    file; every other line keeps its line number"""
    lines = text.split("\n")
    idx = [i for i, l in enumerate(lines) if re.match(r'^\w+ :: #(import|mod)\("', l) and l.endswith(";")]
    if len(idx) < 2:
        return None
    vals = [lines[i] for i in idx]
    perm = vals[:]
    for _ in range(5):
        rnd.shuffle(perm)
        if perm != vals:
            break
    if perm == vals:
        return None
    for i, v in zip(idx, perm):
        lines[i] = v
    return "\n".join(lines)


# ------------------------------------------------------------------------------------------
# worlds

def random_world(rnd):
    w = boxmod.world()
    dims = []

    def on(p):
        return rnd.random() < p

    if on(0.3):
        w["layout"] = "compat"
        dims.append("layout")
    if on(0.3):
        w["via_ldso"] = True
        dims.append("via_ldso")
    if on(0.5):
        # every 16-byte step: the alignment of the compiler's stack frames (mod 256 and beyond)
        # is a function of the size of the environment
        w["env_pad"] = rnd.choice([16 * rnd.randint(1, 255), 16 * rnd.randint(1, 255), 4096, 40000])
        dims.append("env_pad")
    if on(0.35):
        w["hole_brk"] = rnd.choice([4096, 1 << 16, 1 << 20, 37 << 20])
        dims.append("hole_brk")
    if on(0.35):
        w["hole_mmap"] = rnd.choice([4096, 1 << 21, 1 << 28, 5 << 30])
        dims.append("hole_mmap")
    if on(0.35):
        # the whole brk heap moves by a multiple of 4 GiB: the *upper* half of every heap address
        # changes, which none of the other shifts does (real ASLR varies those bits too)
        w["heap_hole"] = rnd.choice([1, 2, 3, 5, 8]) << 32
        dims.append("heap_hole")
    if on(0.45):
        w["perturb"] = rnd.randint(1, 255)
        dims.append("perturb")
    if on(0.25):
        w["tcache_count"] = rnd.choice([0, 1, 3])
        dims.append("tcache_count")
    # glibc.malloc.mmap_threshold is deliberately not varied: it puts some of Cranelift's JIT
    # blobs into the mmap area and others into the brk heap, > 2 GiB apart, and cranelift-jit then
    # panics on a 32-bit pc-relative relocation (compiled_blob.rs). That is a latent limitation of
    # the JIT under an allocator configuration nobody uses, not a reproducibility defect.
    if on(0.7):
        w["hashseed"] = rnd.getrandbits(63)
        dims.append("hashseed")
    if on(0.5):
        w["clock_start"] = rnd.choice([0, 1, 10**9, 10**18, 1_726_000_000 * 10**9])
        w["clock_step"] = rnd.choice([0, 1, 10**6, 10**10])
        dims.append("clock")
    if on(0.2):
        w["clockjump"] = [rnd.randint(1, 4), rnd.choice([10**12, 10**17])]
        dims.append("clockjump")
    if on(0.15):
        w["realtime_backstep"] = [rnd.randint(1, 4), 10**12]
        dims.append("realtime_backstep")
    if on(0.5):
        w["pid"] = rnd.randint(2, 4_000_000)
        dims.append("pid")
    if on(0.4):
        w["env_noise"] = {"V%d" % i: "n" * rnd.randint(0, 200) for i in range(rnd.randint(1, 4))}
        dims.append("env_noise")
    if on(0.3):
        w["shortread"] = rnd.choice([1, 3, 64, 1000])
        dims.append("shortread")
    if on(0.2):
        w["eintr_read"] = rnd.randint(1, 5)
        dims.append("eintr_read")
    if on(0.2):
        w["eintr_open"] = rnd.randint(1, 3)
        dims.append("eintr_open")
    if on(0.3):
        w["shortwrite_obj"] = rnd.choice([1, 17, 512, 4096])
        dims.append("shortwrite_obj")
    if on(0.25):
        w["shortwrite_stdout"] = rnd.choice([1, 7, 100])
        dims.append("shortwrite_stdout")
    if on(0.2):
        w["eintr_write_obj"] = rnd.randint(1, 2)
        dims.append("eintr_write_obj")
    if on(0.2):
        w["eintr_write_stdout"] = rnd.randint(1, 6)
        dims.append("eintr_write_stdout")
    return w, dims


def random_history(rnd):
    """what happened in the output directory before the run that is compared"""
    r = rnd.random()
    if r < 0.30:
        return {"kind": "clean"}
    if r < 0.38:
        k = rnd.randint(1, 60)
        return {"kind": "other_program", "keep_mtime": rnd.random() < 0.6, "source": rnd.choice([
            "main :: () -> i32 { %d }\n" % k,
            "tbl :: comptime { i64.[%d, %d, %d, 4, 5, 6, 7, 8] };\nmain :: () -> i32 { i32.(tbl[3]) }\n" % (k, k + 1, k + 2),
            "main :: () -> i32 { undefined_thing_%d }\n" % k])}
    if r < 0.5:
        return {"kind": "stale_larger_object", "size": rnd.choice([70_000, 300_000]),
                "fill": rnd.randint(1, 255)}
    if r < 0.75:
        cls = rnd.choice(["obj_open", "obj_write", "obj_write", "malloc", "stdout_write", "src_read"])
        if cls == "malloc":
            k = rnd.choice([1, 50, 500, 1500, 3000, 8000, 20000])
        elif cls == "obj_write":
            k = rnd.randint(1, 3)
        else:
            k = rnd.randint(1, 4)
        h = {"kind": "crashed_build", "crash": [cls, k]}
        if cls == "obj_write":
            h["shortwrite_obj"] = rnd.choice([1, 64, 700])
        return h
    if r < 0.87:
        return {"kind": "enospc_build", "at_write": rnd.randint(1, 2),
                "shortwrite_obj": rnd.choice([0, 0, 100])}
    return {"kind": "repeated", "times": rnd.randint(1, 3)}


# ------------------------------------------------------------------------------------------

class Outcome:
    pass


def compile_once(bx, entry, w):
    res = bx.compile(["build", entry, "--mod-dir", bx.mods, "--no-exec"], w)
    name = os.path.splitext(entry)[0]
    o = {
        "exit": res.exit,
        "timed_out": res.timed_out,
        "stdout": boxmod.mask_scratch(boxmod.mask_timing(res.stdout), bx).decode(errors="replace"),
        "stderr": boxmod.mask_scratch(res.stderr, bx).decode(errors="replace"),
        "obj": bx.read_obj(name),
        "fired": res.fired(),
        "probe": res.probe,
        "obj_opens": 0,
        "obj_written": 0,
        "clock_ns": 0,
    }
    for e in res.events:
        if e.call == "open" and "out/" in e.arg and ".o flags=" in e.arg and e.result >= 0:
            flags = int(e.arg.split("flags=")[1], 16)
            if flags & O_TRUNC_CREAT_WRONLY == O_TRUNC_CREAT_WRONLY:
                o["obj_opens"] += 1
            else:
                o["obj_opens"] += 100       # an open of the object that does not truncate
        elif e.call == "write" and ".o" in e.arg and "out/" in e.arg and e.result > 0:
            o["obj_written"] += e.result
        elif e.call == "exit":
            m = re.search(r"sim_ns=(-?\d+)", e.arg)
            if m:
                o["clock_ns"] = int(m.group(1))
    if o["obj_opens"] == 0:
        # nothing was written by *this* compilation; whatever lies in out/ is the past's
        o["stale_obj_left"] = o["obj"] is not None
        o["obj"] = None
    return o


def apply_history(bx, entry, hist):
    """bring out/ into the state the history describes; returns fired fault counters"""
    name = os.path.splitext(entry)[0]
    fired = {}
    kind = hist["kind"]
    out_dir = os.path.join(bx.proj, "out")
    if kind == "clean":
        return fired
    if kind == "stale_larger_object":
        os.makedirs(out_dir, exist_ok=True)
        with open(os.path.join(out_dir, name + ".o"), "wb") as f:
            f.write(bytes([hist["fill"]]) * hist["size"])
        fired["history:stale_larger_object"] = 1
        return fired
    if kind == "crashed_build":
        w = boxmod.world(crash=hist["crash"], shortwrite_obj=hist.get("shortwrite_obj", 0))
        r = compile_once(bx, entry, w)
        if r["exit"] == -9:
            fired["history:crash:%s" % hist["crash"][0]] = 1
            obj = r["obj"]
            fired["history:torn_object_left" if obj is not None else "history:no_object_left"] = 1
        else:
            fired["history:crash_point_not_reached"] = 1
        return fired
    if kind == "enospc_build":
        w = boxmod.world(faults=[["fail_write_obj", hist["at_write"], "ENOSPC"]],
                         shortwrite_obj=hist.get("shortwrite_obj", 0))
        r = compile_once(bx, entry, w)
        if any(k.endswith("ENOSPC") for k in r["fired"]):
            fired["history:enospc"] = 1
        else:
            fired["history:enospc_not_reached"] = 1
        return fired
    if kind == "other_program":
        # an earlier build of *other sources* under the same name: afterwards the real sources
        # are put back (with their original modification times, as a version-control checkout
        # or `cp -p` would) and built - nothing of the other program may survive
        entry_path = os.path.join(bx.proj, entry)
        with open(entry_path, "rb") as f:
            real = f.read()
        st = os.stat(entry_path)
        with open(entry_path, "w") as f:
            f.write(hist["source"])
        r = compile_once(bx, entry, boxmod.REFERENCE_WORLD)
        with open(entry_path, "wb") as f:
            f.write(real)
        if hist.get("keep_mtime"):
            os.utime(entry_path, ns=(st.st_atime_ns, st.st_mtime_ns))
        fired["history:other_program_built" if r["obj"] is not None else "history:other_program_rejected"] = 1
        return fired
    if kind == "repeated":
        for _ in range(hist["times"]):
            compile_once(bx, entry, boxmod.REFERENCE_WORLD)
        fired["history:repeated"] = hist["times"]
        return fired
    return fired


def diag_blocks(stdout):
    return sorted(l for l in stdout.splitlines() if l.startswith("error"))


def differences(ref, got, import_permuted, ref_invalid):
    d = []
    if got["timed_out"]:
        return ["timeout"]
    if ref["obj"] != got["obj"]:
        if ref["obj"] is None or got["obj"] is None:
            d.append("object-presence")
        elif len(ref["obj"]) != len(got["obj"]):
            d.append("object-length")
        else:
            d.append("object-bytes")
    if ref["exit"] != got["exit"]:
        d.append("exit-status")
    if import_permuted:
        # the entry file's text was edited (import lines swapped), so only the set of reported
        # errors is compared, not the surrounding chatter or the quoted source lines
        if diag_blocks(ref["stdout"]) != diag_blocks(got["stdout"]):
            d.append("diagnostics")
    elif ref["stdout"] != got["stdout"]:
        d.append("diagnostics")
    if ref["stderr"] != got["stderr"]:
        d.append("stderr")
    return d


def write_pattern_unexpected(got):
    """Not binding: *how* the object reaches the disk is mechanism, not result (writing a
    temporary file and renaming it would be just as good). Counted in evidence: on this tree
    every object is written by one truncating open and writes that add up to its length."""
    if got["exit"] == 0 and got["obj"] is not None:
        return got["obj_opens"] != 1 or got["obj_written"] != len(got["obj"])
    return False


def diff_offsets(a, b, limit=40):
    if a is None or b is None or len(a) != len(b):
        return None
    offs = [i for i in range(len(a)) if a[i] != b[i]]
    return {"count": len(offs), "first": offs[:limit]}


def run_case(bx, files, entry, w, hist, permuted_text):
    """one compared run: fresh project directory, history, then the build under world w"""
    bx.clean_proj()
    f2 = dict(files)
    if permuted_text is not None:
        f2[entry] = permuted_text
    bx.write_tree(f2)
    fired = apply_history(bx, entry, hist)
    got = compile_once(bx, entry, w)
    for k, v in got["fired"].items():
        fired[k] = fired.get(k, 0) + v
    return got, fired


def task(t):
    seed, idx, n_worlds = t
    rnd = random.Random(common.sub_seed(seed, "c21-program", idx))
    bx = common.worker_box()
    files, entry, label, needs_core = make_program(rnd)
    if needs_core:
        bx.use_real_core()
    bx.clean_proj()
    bx.write_tree(files)
    ref = compile_once(bx, entry, boxmod.REFERENCE_WORLD)
    r = {
        "idx": idx, "label": label, "runs": 1, "discarded": None,
        "ref_exit": ref["exit"], "ref_has_obj": ref["obj"] is not None,
        "obj_sha": common.sha(ref["obj"]) if ref["obj"] else None,
        "fired": {}, "layouts": [ref["probe"]], "hashseeds": 1, "dims": {}, "histories": {},
        "clock_ns": ref["clock_ns"], "import_perms": 0,
        "violations": [], "sample": None,
    }
    if ref["timed_out"]:
        r["discarded"] = "reference-timeout"
        return r
    if ref["exit"] not in (0, 1):
        # The compiler crashed in the reference world. If it crashes in every world that is a
        # matter for other properties (the program is discarded); if some other world gets
        # through, the outcome depends on the world - which is what this check is about.
        for pad in (128, 64, 32, 208):
            w2 = boxmod.world(env_pad=pad)
            got, _ = run_case(bx, files, entry, w2, {"kind": "clean"}, None)
            r["runs"] += 1
            if got["exit"] in (0, 1):
                r["violations"].append({"diff": differences(ref, got, False, False), "world": w2,
                                        "dims": ["env_pad"], "history": {"kind": "clean"},
                                        "import_permuted": False, "permuted_text": None,
                                        "offsets": None,
                                        "ref_stdout": ref["stdout"][-1500:], "got_stdout": got["stdout"][-1500:],
                                        "ref_exit": ref["exit"], "got_exit": got["exit"],
                                        "got_stderr": got["stderr"][-600:],
                                        "note": "the compiler crashes in the reference world and not in this one"})
                r["files"] = files
                r["entry"] = entry
                r["needs_core"] = needs_core
                return r
        r["discarded"] = "reference-crashed-compiler"
        return r
    ref_invalid = ref["exit"] != 0
    # the reference run itself must be repeatable
    again, _ = run_case(bx, files, entry, boxmod.REFERENCE_WORLD, {"kind": "clean"}, None)
    r["runs"] += 1
    d = differences(ref, again, False, ref_invalid)
    if d:
        r["violations"].append({"diff": d, "world": boxmod.REFERENCE_WORLD, "dims": [],
                                "history": {"kind": "clean"}, "import_permuted": False,
                                "offsets": diff_offsets(ref["obj"], again["obj"])})
    for j in range(n_worlds):
        w, dims = random_world(rnd)
        hist = random_history(rnd)
        permuted = None
        # swapping import declarations keeps the program only if no other definition competes
        # with an alias (a seeded "duplicate definition" mutation may do exactly that), so the
        # import order is varied for accepted programs only
        if rnd.random() < 0.25 and not ref_invalid:
            permuted = permute_imports(rnd, files[entry])
        got, fired = run_case(bx, files, entry, w, hist, permuted)
        r["runs"] += 1
        r["clock_ns"] += got["clock_ns"]
        for k, v in fired.items():
            r["fired"][k] = r["fired"].get(k, 0) + v
        for k in dims:
            r["dims"][k] = r["dims"].get(k, 0) + 1
        r["histories"][hist["kind"]] = r["histories"].get(hist["kind"], 0) + 1
        if got["probe"] and got["probe"] not in r["layouts"]:
            r["layouts"].append(got["probe"])
        if "hashseed" in dims:
            r["hashseeds"] += 1
        if permuted is not None:
            r["import_perms"] += 1
        d = differences(ref, got, permuted is not None, ref_invalid)
        if d == ["timeout"]:
            got, fired = run_case(bx, files, entry, w, hist, permuted)
            d = differences(ref, got, permuted is not None, ref_invalid)
        if write_pattern_unexpected(got):
            r["write_pattern_unexpected"] = r.get("write_pattern_unexpected", 0) + 1
        if d and permuted is not None:
            # Not binding. The CLI takes one file, so the only way to "supply the files in a
            # different order" is to edit the entry file's import declarations - and then the
            # sources are no longer the same. Differences are counted for information (seen:
            # the numbering of generic instantiations follows discovery order).
            r["import_order_differences"] = r.get("import_order_differences", 0) + 1
            d = []
        if d:
            r["violations"].append({
                "diff": d, "world": w, "dims": dims, "history": hist,
                "import_permuted": permuted is not None, "permuted_text": permuted,
                "offsets": diff_offsets(ref["obj"], got["obj"]),
                "ref_stdout": ref["stdout"][-1500:], "got_stdout": got["stdout"][-1500:],
                "ref_exit": ref["exit"], "got_exit": got["exit"],
                "got_stderr": got["stderr"][-600:],
            })
    if r["violations"]:
        r["files"] = files
        r["entry"] = entry
        r["needs_core"] = needs_core
    elif idx % 50 == 0:
        r["sample"] = {"program": label, "entry": entry, "object_sha256_16": r["obj_sha"],
                       "reference_exit": ref["exit"], "worlds": n_worlds,
                       "last_world_dims": dims if n_worlds else [], "last_history": hist if n_worlds else None}
    return r


# ------------------------------------------------------------------------------------------
# minimisation / replay

def check_once(bx, files, entry, needs_core, w, hist, permuted):
    if needs_core:
        bx.use_real_core()
    bx.clean_proj()
    bx.write_tree(files)
    ref = compile_once(bx, entry, boxmod.REFERENCE_WORLD)
    got, _ = run_case(bx, files, entry, w, hist, permuted)
    return ref, got, differences(ref, got, permuted is not None, ref["exit"] != 0)


def minimise(files, entry, needs_core, v, budget=60):
    bx = common.worker_box()
    w = dict(v["world"])
    hist = v["history"]
    permuted = v.get("permuted_text")
    want = set(v["diff"])
    trials = [0]

    def still(w2, h2, p2):
        if trials[0] >= budget:
            return False
        trials[0] += 1
        _, _, d = check_once(bx, files, entry, needs_core, w2, h2, p2)
        return bool(set(d) & want)

    if not still(w, hist, permuted):
        return w, hist, permuted, trials[0], False
    if hist["kind"] != "clean" and still(w, {"kind": "clean"}, permuted):
        hist = {"kind": "clean"}
    if permuted is not None and still(w, hist, None):
        permuted = None
    for key in sorted(w):
        if w[key] != boxmod.REFERENCE_WORLD.get(key):
            w2 = dict(w)
            w2[key] = boxmod.REFERENCE_WORLD.get(key)
            if still(w2, hist, permuted):
                w = w2
    return w, hist, permuted, trials[0], True


def replay(path):
    with open(path) as f:
        doc = json.load(f)
    bx = common.worker_box()
    ref, got, d = check_once(bx, doc["files"], doc["entry"], doc.get("needs_core", False),
                             doc["world"], doc["history"], doc.get("permuted_text"))
    print("reference: exit=%s object=%s" % (ref["exit"], common.sha(ref["obj"]) if ref["obj"] else None))
    print("world:     exit=%s object=%s" % (got["exit"], common.sha(got["obj"]) if got["obj"] else None))
    if d:
        print("differences: %s %s" % (d, diff_offsets(ref["obj"], got["obj"])))
        common.report_violation(PROP, path, "differences %s" % d)
        return common.EXIT_VIOLATION
    print("replay: the run equals the reference (no violation)")
    return common.EXIT_OK


def main(tier, seed, replay_path=None):
    if replay_path:
        return replay(replay_path)
    t0 = time.time()
    if tier == "quick":
        n_programs, n_worlds, budget_s = 700, 6, 270
    else:
        n_programs, n_worlds, budget_s = 20000, 30, 3300
    n_programs = int(os.environ.get("C21_PROGRAMS", n_programs))
    tasks = [(seed, i, n_worlds) for i in range(n_programs)]
    results = common.parallel_map(task, tasks, deadline=t0 + budget_s)

    open_findings, _ = common.load_known_findings(PROP)
    violations = []
    for r in results:
        for v in r["violations"]:
            violations.append((r, v))
    groups = {}
    for r, v in violations:
        key = (r["label"].split(":")[0], tuple(v["diff"]))
        groups.setdefault(key, []).append((r, v))
    n_reported = 0
    for key in sorted(groups):
        r, v = groups[key][0]
        if n_reported < 6:
            w, hist, permuted, trials, reproduced = minimise(r["files"], r["entry"], r["needs_core"], v)
        else:
            w, hist, permuted, trials, reproduced = v["world"], v["history"], v.get("permuted_text"), 0, False
        doc = {"format": "capysim-c21-replay-v1", "property": PROP, "seed": seed,
               "program_index": r["idx"], "program": r["label"], "files": r["files"], "entry": r["entry"],
               "needs_core": r["needs_core"], "world": w, "history": hist, "permuted_text": permuted,
               "differences": v["diff"], "differing_offsets": v["offsets"],
               "world_dimensions_that_differ_from_reference": sorted(
                   k for k in w if w[k] != boxmod.REFERENCE_WORLD.get(k)),
               "reference_stdout": v.get("ref_stdout"), "observed_stdout": v.get("got_stdout"),
               "observed_stderr": v.get("got_stderr"),
               "original_world": v["world"], "original_history": v["history"],
               "minimisation_trials": trials, "reproduced_during_minimisation": reproduced,
               "alike": len(groups[key])}
        path = common.write_replay(PROP, "c21-seed%d-p%d-%s.json" % (seed, r["idx"], "+".join(v["diff"])[:60]), doc)
        common.report_violation(PROP, path, "%s program %d: %s differ; world dims %s, history %s (%d runs alike)" % (
            r["label"], r["idx"], v["diff"], doc["world_dimensions_that_differ_from_reference"],
            hist["kind"], len(groups[key])))
        n_reported += 1
        if n_reported >= 10:
            break

    wall = time.time() - t0
    runs = sum(r["runs"] for r in results)
    fired, dims, hists, labels, discarded = {}, {}, {}, {}, {}
    layouts = set()
    objs = set()
    for r in results:
        for k, v in r["fired"].items():
            fired[k] = fired.get(k, 0) + v
        for k, v in r["dims"].items():
            dims[k] = dims.get(k, 0) + v
        for k, v in r["histories"].items():
            hists[k] = hists.get(k, 0) + v
        lab = r["label"].split(":")[0]
        labels[lab] = labels.get(lab, 0) + 1
        if r["discarded"]:
            discarded[r["discarded"]] = discarded.get(r["discarded"], 0) + 1
        for p in r["layouts"]:
            if p:
                layouts.add(p)
        if r["obj_sha"]:
            objs.add(r["obj_sha"])
    programs_used = [r for r in results if not r["discarded"]]
    samples = [r["sample"] for r in results if r.get("sample")][:3] or [{"note": "no sample"}]
    coverage = {
        "evaluations": runs,
        "distinct_nontrivial": len(layouts),
        "rule": "A case is one compiler process: the same source files and command line compiled in a "
                "seeded world (layout class and shifts, heap fill, hash seed, clock, pid, env, legal I/O) "
                "after a seeded history of the output directory. Distinct/non-trivial is counted "
                "conservatively as the number of distinct address-space layouts actually reached "
                "(heap, stack, image, mmap and brk addresses probed inside the compiler process); "
                "every compared run also differs from the reference in at least the hash seed, "
                "clock, pid, I/O behaviour or history.",
        "samples": samples,
        "programs": len(results),
        "programs_compared": len(programs_used),
        "programs_discarded": discarded,
        "program_families": labels,
        "programs_with_object": len([r for r in programs_used if r["ref_has_obj"]]),
        "programs_with_diagnostics_only": len([r for r in programs_used if not r["ref_has_obj"]]),
        "distinct_reference_objects": len(objs),
        "distinct_layouts_reached": len(layouts),
        "hash_seeds_tried": sum(r["hashseeds"] for r in results),
        "world_dimension_use": dims,
        "history_kinds": hists,
        "object_not_written_by_one_truncating_open_nonbinding": sum(
            r.get("write_pattern_unexpected", 0) for r in results),
        "import_order_variants": sum(r["import_perms"] for r in results),
        "import_order_variants_that_differ_nonbinding": sum(r.get("import_order_differences", 0) for r in results),
        "injected_actions_fired": fired,
        "simulated_clock_seconds": round(sum(r["clock_ns"] for r in results) / 1e9, 3),
        "violating_runs": len(violations),
        "runs_per_hour": int(runs / max(wall, 1e-9) * 3600),
        "simulated_components": {
            "real": ["capy compiler binary incl. Cranelift and the comptime JIT", "kernel file system"],
            "controlled": ["address-space layout (ASLR off + deterministic shifts)", "malloc perturbation / thresholds",
                           "getrandom (hash seeds)", "clock_gettime/gettimeofday/time", "getpid", "environment",
                           "open/read/write behaviour (short, EINTR, ENOSPC)", "crash points (SIGKILL)",
                           "contents of out/ before the build"],
            "stub": [],
        },
        "repo_state": common.repo_state(),
    }
    common.write_evidence(
        PROP, tier, seed, LEVEL, coverage,
        ["layout variation is by deterministic shifts with ASLR off, not by sampling the kernel's ASLR distribution",
         "the three timing fragments printed by main.rs are masked before comparing diagnostic output",
         "environment variables that are options of capy or its libraries (colour, backtrace, PATH) are never varied",
         "sampling, not enumeration"],
        wall, len(violations))
    print("C21 %s: %d programs (%d compared), %d runs, %d distinct layouts, %d violating runs, %.0fs" % (
        tier, len(results), len(programs_used), runs, len(layouts), len(violations), wall))
    _ = open_findings
    return common.EXIT_VIOLATION if violations else common.EXIT_OK
