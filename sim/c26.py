"""C26 — inference scheduling offers exactly the ready work and detects true cycles.

Part (a): engine E2 `toposim` — seeded histories of registrations / completions (the
checker's usage protocol, incl. cycle-breaking rounds, self-dependencies, newly discovered
items, duplicate deliveries) driven into the real `topo::TopoSort` and compared, after every
API call, with an executable reference model.

Part (b): recorded histories of the *real* checker (hook H1) from engine E1 — the C20 workload
under random definition orders / file partitions plus the repository's own example programs —
replayed into the model and into a fresh TopoSort, which also checks the round loop of
`InferenceCtx::finish` (every offered item is run once and then removed or re-registered, the
loop ends exactly when nothing is pending).
"""

import json
import os
import shutil
import subprocess
import tempfile
import time

from . import box as boxmod
from . import c20, common

PROP = "C26"
LEVEL = "exploration"


def run_toposim(args):
    p = subprocess.run([common.TOPOSIM] + args, stdout=subprocess.PIPE, stderr=subprocess.PIPE)
    if p.returncode not in (0, 1):
        print(p.stdout.decode(errors="replace")[-2000:])
        print(p.stderr.decode(errors="replace")[-2000:])
        common.harness_fail("toposim %s failed with exit %d" % (args[0], p.returncode))
    return p.returncode, p.stdout.decode(errors="replace")


def gen_batch(seed, histories, max_items, max_rounds, out_dir, offprotocol=False):
    out = os.path.join(out_dir, "gen-%d-%d-%s.json" % (max_items, max_rounds,
                                                      "off" if offprotocol else "on"))
    args = ["gen", "--seed", str(seed), "--histories", str(histories), "--max-items",
            str(max_items), "--max-rounds", str(max_rounds), "--out", out,
            "--replay-dir", os.path.join(common.REPLAYS, PROP)]
    if offprotocol:
        args.append("--offprotocol")
    code, stdout = run_toposim(args)
    with open(out) as f:
        summary = json.load(f)
    return code, stdout, summary


def example_task(t):
    """compile one of the repository's example programs (with the real `core` module) and
    keep the scheduler trace"""
    name, traces_dir = t
    bx = common.worker_box()
    bx.use_real_core()
    bx.clean_proj()
    src_dir = os.path.join(common.REPO, "examples")
    for fn in sorted(os.listdir(src_dir)):
        if fn.endswith(".capy"):
            shutil.copy(os.path.join(src_dir, fn), os.path.join(bx.proj, fn))
    res = bx.compile(["build", name, "--mod-dir", bx.mods, "--no-exec"], boxmod.REFERENCE_WORLD,
                     trace=True, timeout=30)
    if res.trace:
        with open(os.path.join(traces_dir, "example-%s.trace" % name[:-5]), "w") as f:
            f.write(res.trace)
    return {"name": name, "exit": res.exit, "traced": bool(res.trace)}


def cyc_program(rnd):
    """A small program whose *globals* depend on each other in a seeded graph that usually has
    cycles - i.e. an invalid program (circular definitions), or a valid one whose value globals
    wait on recursive functions. The property quantifies over every history the checker can
    produce, and yields inside cycle-breaking rounds come almost only from such programs."""
    n = rnd.randint(3, 7)
    names = ["g%d" % i for i in range(n)]
    lines = []
    for i, g in enumerate(names):
        others = [x for x in names if x != g]
        k = rnd.choice([0, 1, 1, 1, 2])
        deps = rnd.sample(others, min(k, len(others)))
        if rnd.random() < 0.1:
            deps.append(g)                       # a global that names itself
        form = rnd.choice(["plain", "plain", "comptime", "comptime_locals", "lambda", "fn", "typed", "fn_rec"])
        expr = " + ".join(deps + [str(rnd.randint(1, 9))])
        if form == "plain":
            lines.append("%s :: %s;" % (g, expr))
        elif form == "typed":
            lines.append("%s : i64 : comptime { %s };" % (g, expr))
        elif form == "comptime":
            lines.append("%s :: comptime { %s };" % (g, expr))
        elif form == "comptime_locals":
            first = deps[0] if deps else "1"
            lines.append("%s :: comptime { seed := %s; t := seed + 2; t + %s };" % (g, first, expr))
        elif form == "lambda":
            lines.append("%s :: comptime { helper := () -> i64 { %d }; helper() + %s };" % (
                g, rnd.randint(1, 9), expr))
        elif form == "fn":
            lines.append("%s :: () -> i64 { %s }" % (g, " + ".join(
                [("%s()" % d if False else d) for d in deps] + ["1"])))
        else:
            lines.append("%s :: (a: i64) -> i64 { if a <= 0 { %s } else { %s(a - 1) } }" % (g, expr, g))
    # function-valued globals cannot be added to integers: that is a type error, not a scheduling
    # matter, and every outcome of the compiler is fine here - only the recorded history is judged
    rnd.shuffle(lines)
    lines.append("main :: () -> i32 { 0 }")
    return {"main.capy": "\n".join(lines) + "\n"}


def cyc_task(t):
    seed, idx, traces_dir = t
    import random
    rnd = random.Random(common.sub_seed(seed, "c26-cyc", idx))
    files = cyc_program(rnd)
    bx = common.worker_box()
    bx.clean_proj()
    bx.write_tree(files)
    res = bx.compile(["build", "main.capy", "--mod-dir", bx.mods, "--no-exec"], boxmod.REFERENCE_WORLD,
                     trace=True, timeout=6)
    if res.trace:
        with open(os.path.join(traces_dir, "cyc%06d.trace" % idx), "w") as f:
            f.write(res.trace)
    return {"idx": idx, "exit": res.exit, "timed_out": res.timed_out, "traced": bool(res.trace)}


def cyc_files(seed, idx):
    import random
    return cyc_program(random.Random(common.sub_seed(seed, "c26-cyc", idx)))


def replay(path):
    with open(path) as f:
        doc = json.load(f)
    if doc.get("format") == "toposim-replay-v1":
        code, out = run_toposim(["replay", path])
        print(out)
        if code == 1:
            common.report_violation(PROP, path, doc.get("violation", {}).get("detail", ""))
        return code
    if doc.get("format") == "capysim-c26-trace-v1":
        d = tempfile.mkdtemp(prefix="c26-replay-")
        try:
            # the recorded history of the real checker ...
            with open(os.path.join(d, "recorded.trace"), "w") as f:
                f.write(doc["trace"])
            code, out = run_toposim(["trace", d])
            print(out)
            # ... and, if the sources are there, a fresh recording from the current tree
            if doc.get("files"):
                bx = common.worker_box()
                o = c20.build_and_run(bx, doc["files"], link=False)
                if o.get("_trace"):
                    d2 = tempfile.mkdtemp(prefix="c26-replay-")
                    with open(os.path.join(d2, "fresh.trace"), "w") as f:
                        f.write(o["_trace"])
                    code2, out2 = run_toposim(["trace", d2])
                    print("fresh recording from the current tree:")
                    print(out2)
                    shutil.rmtree(d2, ignore_errors=True)
                    code = code2
        finally:
            shutil.rmtree(d, ignore_errors=True)
        if code == 1:
            common.report_violation(PROP, path, doc.get("violation", {}).get("detail", ""))
        return code
    common.harness_fail("unknown replay format in %s" % path)


def main(tier, seed, replay_path=None):
    if replay_path:
        return replay(replay_path)
    t0 = time.time()
    work = tempfile.mkdtemp(prefix="c26-")
    traces_dir = os.path.join(work, "traces")
    os.makedirs(traces_dir)
    violations = 0
    try:
        # ---- part (a) -----------------------------------------------------------------
        if tier == "quick":
            configs = [(2_000_000, 4, 8), (600_000, 6, 16)]
            n_programs, k = 50, 5
            off_histories = 200_000
        else:
            configs = [(60_000_000, 4, 8), (30_000_000, 5, 12), (20_000_000, 7, 24)]
            n_programs, k = 700, 16
            off_histories = 5_000_000
        gen_summaries = []
        for i, (h, items, rounds) in enumerate(configs):
            code, stdout, summary = gen_batch(common.sub_seed(seed, "c26-gen", i) & 0xFFFFFFFF,
                                              h, items, rounds, work)
            gen_summaries.append(summary)
            for v in summary["violations"]:
                violations += 1
                common.report_violation(PROP, v["replay"], "%s: %s" % (v["kind"], v["detail"]))
        # histories outside the usage protocol: information only (the property does not
        # quantify over them), never a violation
        _, _, off = gen_batch(common.sub_seed(seed, "c26-off") & 0xFFFFFFFF, off_histories, 4, 8,
                              work, offprotocol=True)
        for v in off["violations"]:
            try:
                os.unlink(v["replay"])
            except OSError:
                pass

        # ---- part (b) -----------------------------------------------------------------
        c20.COMPILE_TIMEOUT = 20
        results = c20.run_batch(common.sub_seed(seed, "c26-traces") & 0xFFFFFFFF, n_programs, k,
                                traces_dir=traces_dir, deadline=t0 + (150 if tier == "quick" else 2400))
        examples = sorted(f for f in os.listdir(os.path.join(common.REPO, "examples")) if f.endswith(".capy"))
        ex = common.parallel_map(example_task, [(e, traces_dir) for e in examples])
        cyc_seed = common.sub_seed(seed, "c26-cyc-batch") & 0xFFFFFFFF
        n_cyc = 150 if tier == "quick" else 4000
        cyc = common.parallel_map(cyc_task, [(cyc_seed, i, traces_dir) for i in range(n_cyc)],
                                  deadline=time.time() + (60 if tier == "quick" else 1200))
        tr_out = os.path.join(work, "trace-summary.json")
        code, stdout = run_toposim(["trace", traces_dir, "--out", tr_out])
        with open(tr_out) as f:
            tr = json.load(f)
        for v in tr["violations"]:
            violations += 1
            with open(v["file"]) as f:
                text = f.read()
            base = os.path.basename(v["file"])
            files = None
            if base.startswith("cyc"):
                files = cyc_files(cyc_seed, int(base[3:9]))
            elif base.startswith("p"):
                # re-generate the program and variant that produced this trace
                idx = int(base[1:7])
                j = -1 if "-base" in base else int(base.split("-v")[1][:2])
                files = c20.files_for(common.sub_seed(seed, "c26-traces") & 0xFFFFFFFF, idx, j)
            doc = {"format": "capysim-c26-trace-v1", "property": PROP, "seed": seed,
                   "violation": v, "trace": text, "source": base, "files": files}
            path = common.write_replay(PROP, "c26-trace-seed%d-%s.json" % (seed, base), doc)
            common.report_violation(PROP, path, "%s (recorded history of the real checker, %s "
                                    "line %d): %s" % (v["kind"], base, v["line"], v["detail"]))

        wall = time.time() - t0
        histories = sum(s["histories"] for s in gen_summaries)
        nontrivial = sum(s["distinct_nontrivial_history_hashes"] for s in gen_summaries)
        stats_sum = {}
        for s in gen_summaries:
            for key, val in s["stats"].items():
                if key.startswith("max_"):
                    stats_sum[key] = max(stats_sum.get(key, 0), val)
                else:
                    stats_sum[key] = stats_sum.get(key, 0) + val
        coverage = {
            "evaluations": histories + tr["traces"],
            "distinct_nontrivial": nontrivial,
            "rule": "A case is one history: an initial extend followed by scheduling rounds in which "
                    "every offered item completes or registers dependencies (seeded; includes self-"
                    "dependencies, new items, duplicate deliveries, cycle-breaking completions), "
                    "checked against the reference model after every API call. Distinct = distinct "
                    "hash of the full event sequence; non-trivial = at least one round in which "
                    "some pending item was blocked. Summed over the configurations, which use "
                    "different bounds; recorded traces of the real checker are counted separately.",
            "samples": gen_summaries[0]["samples"][:2] + [
                {"recorded_trace": sorted(os.listdir(traces_dir))[0] if os.listdir(traces_dir) else None}],
            "states": sum(s["distinct_model_states"] for s in gen_summaries),
            "transitions": stats_sum.get("api_calls", 0),
            "traces_validated_against_impl": tr["complete_traces"],
            "generated": [
                {k: s[k] for k in ("histories", "max_items", "max_rounds", "seed",
                                   "distinct_model_states", "distinct_history_hashes",
                                   "distinct_nontrivial_history_hashes", "histories_per_hour",
                                   "distinct_counts_are_lower_bounds", "violations_found")}
                for s in gen_summaries],
            "generated_stats": stats_sum,
            "offprotocol_nonbinding": {
                "histories": off["histories"],
                "mismatches_with_model": off["violations_found"],
                "note": "dependencies registered on completed items; outside the property's "
                        "quantifier, reported as information only",
                "kinds": sorted(set(v["kind"] for v in off["violations"])),
            },
            "recorded_traces": {k: tr[k] for k in tr if k != "violations"},
            "recorded_trace_sources": {
                "c20_workload_programs": len(results),
                "c20_workload_runs": sum(1 + r["variants"] for r in results),
                "repository_examples": len([e for e in ex if e["traced"]]),
                "cyclic_global_programs": len(cyc),
                "cyclic_global_programs_accepted": len([c for c in cyc if c["exit"] == 0]),
                "cyclic_global_programs_compiler_timed_out": len([c for c in cyc if c["timed_out"]]),
            },
            "simulated_components": {
                "real": ["topo::TopoSort (crates/topo)", "InferenceCtx::finish round loop (part b, via hook H1)"],
                "stub": ["the checker's per-item decision in part (a): seeded simulated checker"],
            },
            "repo_state": common.repo_state(),
        }
        common.write_evidence(
            PROP, tier, seed, LEVEL, coverage,
            ["the reference model (sim/../toposim/src/model.rs) is the property's reading of 'ready' and 'cycle'",
             "what a cycle-breaking round offers is only required to be a non-empty, duplicate-free subset of the pending items",
             "sampling, not enumeration"],
            wall, violations)
        print("C26 %s: %d generated histories (%d distinct non-trivial), %d recorded traces "
              "(%d complete, %d cyclic rounds, %d restarts), %d violations, %.0fs" % (
                  tier, histories, nontrivial, tr["traces"], tr["complete_traces"],
                  tr["cyclic_rounds"], tr["restarts"], violations, wall))
    finally:
        shutil.rmtree(work, ignore_errors=True)
    return common.EXIT_VIOLATION if violations else common.EXIT_OK
