"""C28 — imports resolve to the right files and each file is compiled once.

What is simulated: the file system the importer sees, and the libc calls it uses on it
(open/read/stat through the shim, incl. short reads, EINTR and — in a separate batch — hard
faults such as a file that passes the existence check and then cannot be opened).

A world is a *spec* (JSON): a project directory (the compiler's cwd) with files in `.`, `a/`,
`a/b/`, an `outside` directory next to it, and a module directory; every file defines
`id : i64 : <unique>` and a list of import statements, each on a world-wide unique line
number. `main` prints `alias.id` along seeded member chains.

Reference model (written from the property text, not from the code): lexical resolution of the
path relative to the importing file's directory, the three rejection rules for `#import`, the
two for `#mod`, the reachable set as the closure over accepted imports, the expected output.

Oracle for fault-free and legal-I/O worlds:
  (1) the import diagnostics (matched by line number and kind) are exactly the model's rejected
      imports of reachable files, nothing else is reported, and the build succeeds iff there are
      none;
  (2) every reachable file is opened exactly once (event log) and appears as exactly one file in
      the scheduler's initial work list (hook H1), whatever cycles and path spellings exist;
  (3) the executable prints the model's output and returns the model's status.
Under hard faults the oracle is deliberately relaxed to "may fail, never wrong".
"""

import json
import os
import posixpath
import random
import re
import time

from . import box as boxmod
from . import common

PROP = "C28"
LEVEL = "fault_enumeration"

PRELUDE = '''putchar :: (ch: i32) -> i32 extern;
emit :: (n: i64) {
    v := n;
    if v < 0 { putchar(45); v = 0 - v; }
    digits : [20]i32;
    cnt := 0;
    if v == 0 { digits[0] = 48; cnt = 1; }
    while v > 0 { digits[cnt] = i32.(48 + v % 10); v = v / 10; cnt += 1; }
    while cnt > 0 { cnt -= 1; putchar(digits[cnt]); }
    putchar(10);
}
'''
PRELUDE_LINES = PRELUDE.count("\n")
GARBAGE = "@@@ this file must never be compiled ((( \n"

# box-root-relative names of the three areas
CWD, MODS, OUT = "p", "m", "o"
# a second outside directory whose name merely *extends* the working directory's name
OUT2 = "px"
# absolute paths inside the world are written with this prefix in a spec; rendering replaces it
# by the scratch root of the box the world is materialised in
ROOT = "/ROOT"

KIND_PATTERNS = [
    ("not_capy", re.compile(r"^capy files must end in `\.capy`$")),
    ("not_found", re.compile(r"^`.*` couldn't be found$")),
    ("outside", re.compile(r"^`.*` is outside the current working module$")),
    ("mod_alnum", re.compile(r"^modules must be alphanumeric$")),
    ("mod_missing", re.compile(r"^a `.*` module could not be found in `.*`$")),
    ("mod_nofile", re.compile(r"^the `.*` module exists in `.*`, but doesn't contain a `mod\.capy` file$")),
]


# ------------------------------------------------------------------------------------------
# the reference model

def norm(path):
    return posixpath.normpath(path)


class Model:
    def __init__(self, spec):
        self.spec = spec
        self.files = spec["files"]            # root-relative path -> {id, imports, garbage}
        self.dirs = set(spec.get("dirs", []))
        self.raw = spec.get("raw", {})
        for p in list(self.files) + list(self.raw):
            d = posixpath.dirname(p)
            while d:
                self.dirs.add(d)
                d = posixpath.dirname(d)

    def is_file(self, p):
        return p in self.files or p in self.raw

    def is_dir(self, p):
        return p in self.dirs

    @staticmethod
    def inside(p, area):
        return p == area or p.startswith(area + "/")

    def resolve(self, importer, imp):
        """-> (target or None, set of applicable rejection kinds)"""
        arg = imp["arg"]
        if imp["kind"] == "mod":
            reasons = set()
            if not all(ch.isascii() and ch.isalnum() for ch in arg):
                reasons.add("mod_alnum")
            target = "%s/%s/src/mod.capy" % (MODS, arg)
            if not self.is_dir("%s/%s/src" % (MODS, arg)):
                reasons.add("mod_missing")
                reasons.add("mod_nofile")
            elif not self.is_file(target):
                reasons.add("mod_nofile")
            if reasons:
                return None, reasons
            return target, set()
        p = arg.replace("\\", "/")
        reasons = set()
        if not arg.endswith(".capy"):
            reasons.add("not_capy")
        if p.startswith("/"):
            root = ROOT
            if p == root or p.startswith(root + "/"):
                target = norm(p[len(root) + 1:])
            else:
                target = None    # somewhere else entirely
        else:
            target = norm(posixpath.join(posixpath.dirname(importer), p))
        if target is None or target.startswith("..") or not self.is_file(target):
            reasons.add("not_found")
        if target is None or not (self.inside(target, CWD) or self.inside(target, MODS)):
            reasons.add("outside")
        if reasons:
            return None, reasons
        return target, set()

    def analyse(self):
        """reachable files (in discovery order), rejected imports, alias maps"""
        entry = "%s/main.capy" % CWD
        reachable = [entry]
        rejected = {}      # line -> (file, kinds)
        edges = {}         # file -> {alias: target}
        todo = [entry]
        while todo:
            f = todo.pop(0)
            edges[f] = {}
            for imp in self.files[f]["imports"]:
                target, reasons = self.resolve(f, imp)
                if target is None:
                    rejected[imp["line"]] = (f, sorted(reasons))
                    continue
                # an import inside a function body binds a local name: it makes the target
                # reachable like any other import, but `file.alias` cannot see it
                if imp.get("local"):
                    edges[f]["@" + imp["alias"]] = target
                else:
                    edges[f][imp["alias"]] = target
                if target not in reachable:
                    reachable.append(target)
                    todo.append(target)
        return reachable, rejected, edges

    def chain_value(self, edges, chain):
        """id of the file reached from main along the aliases, or None if the chain is invalid"""
        f = "%s/main.capy" % CWD
        for alias in chain:
            nxt = edges.get(f, {}).get(alias)
            if nxt is None:
                return None
            f = nxt
        return self.files[f]["id"]


# ------------------------------------------------------------------------------------------
# rendering a spec into a tree

def render_file(spec, path, edges_ok_chains, real_root, rejected_lines=()):
    info = spec["files"][path]
    if info.get("garbage"):
        return GARBAGE
    lines = {}
    is_main = path == "%s/main.capy" % CWD
    top = PRELUDE if is_main else ""
    first_free = PRELUDE_LINES + 1 if is_main else 1
    lines[first_free] = "id : i64 : %d;" % info["id"]
    for imp in info["imports"]:
        directive = "#mod" if imp["kind"] == "mod" else "#import"
        arg = imp["arg"]
        if arg.startswith(ROOT + "/"):
            arg = real_root + arg[len(ROOT):]
        arg = arg.replace("\\", "\\\\")
        if imp.get("local"):
            # inside a function body (four lines are reserved around the import's line)
            n = imp["line"]
            lines[n - 1] = "lf_%s :: () -> i64 {" % imp["alias"]
            lines[n] = '    %s :: %s("%s");' % (imp["alias"], directive, arg)
            lines[n + 1] = "    0" if n in rejected_lines else "    %s.id" % imp["alias"]
            lines[n + 2] = "}"
        else:
            lines[imp["line"]] = '%s :: %s("%s");' % (imp["alias"], directive, arg)
    last = max(lines)
    body = []
    for n in range(first_free, last + 1):
        body.append(lines.get(n, ""))
    text = top + "\n".join(body) + "\n"
    if is_main:
        stmts = "".join("    emit(%s.id);\n" % ".".join(c) for c in edges_ok_chains)
        stmts += "".join("    emit(lf_%s());\n" % imp["alias"] for imp in info["imports"]
                         if imp.get("local") and imp["line"] not in rejected_lines)
        text += "main :: () -> i32 {\n    emit(id);\n%s    %d\n}\n" % (stmts, spec["status"])
    return text


def materialise(bx, spec):
    """write the world under the box root; returns (model, reachable, rejected, edges, chains)"""
    model = Model(spec)
    reachable, rejected, edges = model.analyse()
    chains = [c for c in spec["chains"] if model.chain_value(edges, c) is not None]
    bx.reset()
    tree = {}
    for d in spec.get("dirs", []):
        tree[d] = None
    for p, content in spec.get("raw", {}).items():
        tree[p] = content
    for p in spec["files"]:
        tree[p] = render_file(spec, p, chains, bx.root, set(rejected))
    bx.write_tree(tree, base=bx.root)
    return model, reachable, rejected, edges, chains


# ------------------------------------------------------------------------------------------
# world generator

STYLES = ["plain", "plain", "dot", "redundant", "reenter", "backslash", "absolute"]


def spell(rnd, model, importer, target):
    """a spelling of `target` as seen from `importer` (both root-relative)"""
    d = posixpath.dirname(importer)
    rel = posixpath.relpath(target, d)
    style = rnd.choice(STYLES)
    if style == "dot" and not rel.startswith(".."):
        return "./" + rel
    if style == "redundant":
        subs = sorted(x for x in model.dirs if posixpath.dirname(x) == d)
        if subs:
            return "%s/../%s" % (posixpath.basename(rnd.choice(subs)), rel)
    if style == "reenter" and d:
        return "../%s/%s" % (posixpath.basename(d), rel)
    if style == "backslash":
        return rel.replace("/", "\\")
    if style == "absolute":
        return "%s/%s" % (ROOT, target)
    return rel


def gen_world(rnd, valid_only=None):
    if valid_only is None:
        valid_only = rnd.random() < 0.55
    # directory layout (swarm): the usual nested one; directories called `src` (the name the
    # module layout gives a meaning to); directory and file names that are legal but unusual
    # (inner dots, dashes, a leading digit) - distinct files must stay distinct definitions
    layout = rnd.choice(["nested", "nested", "nested", "src", "odd"])
    dirs = [CWD]
    names = "xyzw"
    if layout == "nested":
        if rnd.random() < 0.75:
            dirs.append(CWD + "/a")
            if rnd.random() < 0.6:
                dirs.append(CWD + "/a/b")
    elif layout == "src":
        dirs += rnd.sample([CWD + "/a/src", CWD + "/b/src", CWD + "/src", CWD + "/a"], 2)
        names = "xy"
    else:
        if rnd.random() < 0.7:
            # two directories whose names are easy to confuse
            dirs += [CWD + "/" + d for d in rnd.choice([("1", "f1"), ("d.x", "d-x"), ("d.capy", "d"),
                                                        ("d.x", "d\\.x")])]
        else:
            dirs += rnd.sample([CWD + "/1", CWD + "/f1", CWD + "/d.x", CWD + "/d-x", CWD + "/a",
                                CWD + "/d.capy", CWD + "/d"], 2)
        names = rnd.choice([["x", "y"], ["x", "y"], ["a.b", "a-b", "x"], ["1", "f1", "x"]])
    files = {"%s/main.capy" % CWD: {"id": 1, "imports": []}}
    next_id = [2]

    def add_file(path, **kw):
        if path in files:
            return
        files[path] = dict({"id": next_id[0], "imports": []}, **kw)
        next_id[0] += 1

    for _ in range(rnd.randint(1, 5)):
        add_file("%s/%s.capy" % (rnd.choice(dirs), rnd.choice(names)))
    if layout != "nested" and len(dirs) >= 3 and rnd.random() < 0.6:
        # the same file name in both of the confusable directories
        nm = rnd.choice(names)
        add_file("%s/%s.capy" % (dirs[1], nm))
        add_file("%s/%s.capy" % (dirs[2], nm))
    if layout == "nested" and rnd.random() < 0.15:
        add_file("%s/.capy" % rnd.choice(dirs))     # a file whose whole name is the suffix
    spec = {"files": files, "dirs": list(dirs) + [MODS + "/core", OUT], "raw": {}, "chains": [],
            "status": rnd.randint(0, 60),
            "mod_dir_spelling": rnd.choice(["abs", "abs", "abs", "rel", "rel_slash", "dot_rel",
                                            "abs_slash", "through_cwd"])}
    # things that exist but must not be importable
    add_file("%s/ext.capy" % OUT, garbage=rnd.random() < 0.5)
    add_file("%s/ext2.capy" % OUT2, garbage=rnd.random() < 0.5)
    if rnd.random() < 0.5:
        spec["dirs"].append("%s/d.capy" % rnd.choice(dirs))
    if rnd.random() < 0.5:
        spec["raw"]["%s/notes.txt" % rnd.choice(dirs)] = "not capy\n"
    # existing files with perfectly valid contents whose names contain `.capy` without ending in it
    near = []
    for nm in ("w.capy.bak", "lib.capy.txt", "x.capyx", "up.CAPY", "mix.Capy"):
        if rnd.random() < 0.4:
            pth = "%s/%s" % (rnd.choice(dirs), nm)
            spec["raw"][pth] = "id : i64 : 77;\n"
            near.append(pth)
    # module directory
    mods_good, mods_bad = [], ["gamma"]
    if rnd.random() < 0.7:
        add_file("%s/alpha/src/mod.capy" % MODS)
        mods_good.append("alpha")
        if rnd.random() < 0.5:
            add_file("%s/alpha/src/extra.capy" % MODS)
            if rnd.random() < 0.5:
                # a file of the module that is not under its src/: same name, other file
                add_file("%s/alpha/extra.capy" % MODS)
    if rnd.random() < 0.4:
        add_file("%s/Beta2/src/mod.capy" % MODS)
        mods_good.append("Beta2")
    if rnd.random() < 0.5:
        spec["dirs"].append("%s/beta1/src" % MODS)
        mods_bad.append("beta1")
    if rnd.random() < 0.3:
        spec["dirs"].append("%s/delta/src/mod.capy" % MODS)     # a directory named mod.capy
        mods_bad.append("delta")
    if rnd.random() < 0.5:
        name = rnd.choice(["bad-name", "bad.name", "bad_name", "sp ace"])
        add_file("%s/%s/src/mod.capy" % (MODS, name), garbage=rnd.random() < 0.5)
        mods_bad.append(name)
    mods_bad.append("core")      # exists, but has no src/
    mods_bad.append("")          # the empty name: <mod-dir>//src does not exist

    model = Model(spec)
    importable = sorted(p for p in files
                        if (Model.inside(p, CWD) or Model.inside(p, MODS)) and not files[p].get("garbage"))
    line = [PRELUDE_LINES + 2]
    alias_n = [0]

    def add_import(importer, kind, arg):
        alias_n[0] += 1
        local = rnd.random() < 0.2
        line[0] += rnd.randint(1, 2) + (1 if local else 0)
        imp = {"alias": "i%d" % alias_n[0], "kind": kind, "arg": arg, "line": line[0]}
        if local:
            imp["local"] = True       # written inside a function body
            line[0] += 2
        files[importer]["imports"].append(imp)

    importers = sorted(p for p in files if not files[p].get("garbage") and not Model.inside(p, OUT)
                       and not Model.inside(p, OUT2))
    for importer in importers:
        n = rnd.randint(1, 3) if importer.endswith("/main.capy") and Model.inside(importer, CWD) \
            else rnd.randint(0, 3)
        for _ in range(n):
            r = rnd.random()
            if r < 0.62 or (valid_only and r < 0.85):
                target = rnd.choice(importable)
                add_import(importer, "import", spell(rnd, model, importer, target))
            elif r < 0.85 or valid_only:
                if mods_good:
                    add_import(importer, "mod", rnd.choice(mods_good))
                else:
                    target = rnd.choice(importable)
                    add_import(importer, "import", spell(rnd, model, importer, target))
            else:
                d = posixpath.dirname(importer)
                bad = rnd.choice(["missing", "noncapy", "dircapy", "outside", "abs_outside", "mod",
                                  "outside_deep", "almost_capy", "elsewhere", "outside_sibling",
                                  "outside_sibling", "near_capy", "near_capy", "trailing_sep",
                                  "cross_kind", "cross_kind"])
                if bad == "missing":
                    add_import(importer, "import", rnd.choice(["nope.capy", "a/nope.capy", "../nope.capy"]))
                elif bad == "noncapy":
                    notes = sorted(spec["raw"])
                    if notes:
                        add_import(importer, "import", posixpath.relpath(notes[0], d))
                    else:
                        add_import(importer, "import", "main.cap")
                elif bad == "near_capy" and near:
                    add_import(importer, "import", posixpath.relpath(rnd.choice(near), d))
                elif bad == "cross_kind":
                    # the argument of an earlier, *valid* directive of this file, handed to the
                    # other directive: #mod("x.capy") after #import("x.capy"), #import("alpha")
                    # after #mod("alpha") - each directive has to apply its own rules
                    earlier = [i for i in files[importer]["imports"]
                               if (i["kind"] == "mod" and i["arg"] in mods_good)
                               or (i["kind"] == "import" and Model(spec).resolve(importer, i)[0])]
                    if earlier:
                        e = rnd.choice(earlier)
                        add_import(importer, "import" if e["kind"] == "mod" else "mod", e["arg"])
                    elif mods_good:
                        m = rnd.choice(mods_good)
                        add_import(importer, "mod", m)
                        add_import(importer, "import", m)
                    else:
                        add_import(importer, "import", "nope.capy")
                elif bad == "trailing_sep":
                    # an existing, importable file followed by a separator: the string does not
                    # end in `.capy`
                    target = rnd.choice(importable)
                    add_import(importer, "import", posixpath.relpath(target, d) + rnd.choice(["/", "\\", "/."]))
                elif bad == "almost_capy":
                    target = rnd.choice(importable)
                    add_import(importer, "import", posixpath.relpath(target, d) + rnd.choice([".bak", "x", " "]))
                elif bad == "dircapy":
                    ds = sorted(x for x in spec["dirs"] if x.endswith("d.capy"))
                    add_import(importer, "import", posixpath.relpath(ds[0], d) if ds else "a.capy/")
                elif bad == "outside":
                    add_import(importer, "import", posixpath.relpath("%s/ext.capy" % OUT, d))
                elif bad == "outside_sibling":
                    add_import(importer, "import", rnd.choice([
                        posixpath.relpath("%s/ext2.capy" % OUT2, d), "%s/%s/ext2.capy" % (ROOT, OUT2)]))
                elif bad == "outside_deep":
                    add_import(importer, "import", "a/../" + posixpath.relpath("%s/ext.capy" % OUT, d))
                elif bad == "abs_outside":
                    add_import(importer, "import", "%s/%s/ext.capy" % (ROOT, OUT))
                elif bad == "elsewhere":
                    add_import(importer, "import", "/etc/hostname.capy")
                else:
                    add_import(importer, "mod", rnd.choice(mods_bad))
    # member chains from main along accepted imports
    model = Model(spec)
    reachable, rejected, edges = model.analyse()
    entry = "%s/main.capy" % CWD
    for _ in range(rnd.randint(2, 6)):
        f, chain = entry, []
        for _ in range(rnd.randint(1, 3)):
            nxt = sorted(a for a in edges.get(f, {}) if not a.startswith("@"))
            if not nxt:
                break
            a = rnd.choice(nxt)
            chain.append(a)
            f = edges[f][a]
        if chain and chain not in spec["chains"]:
            spec["chains"].append(chain)
    # files nothing reaches may hold garbage: they must never be compiled
    for p in files:
        if p not in reachable and not Model.inside(p, OUT) and not Model.inside(p, OUT2) \
                and rnd.random() < 0.5:
            files[p]["garbage"] = True
    # the entry file may be named on the command line in any spelling that means main.capy
    # (drawn last, so that the rest of the world is what it was before this dimension existed)
    spec["entry_spelling"] = rnd.choice(["plain", "plain", "plain", "dot", "dot", "dslash", "up_down",
                                         "abs", "through_dir"])
    return spec


# ------------------------------------------------------------------------------------------
# running a world and judging it

DIAG_RE = re.compile(r"^error: (.*)\n\s*--> at (.*):(\d+):(\d+)$", re.M)


def run_world(bx, spec, world, want_run=True, keep_tree=False):
    if keep_tree:
        # the tree (and whatever an earlier build left in out/) stays as it is
        model = Model(spec)
        reachable, rejected, edges = model.analyse()
        chains = [c for c in spec["chains"] if model.chain_value(edges, c) is not None]
    else:
        model, reachable, rejected, edges, chains = materialise(bx, spec)
    # the module directory may be handed to the compiler in any spelling
    sp = spec.get("mod_dir_spelling", "abs")
    mod_dir = {"abs": bx.mods, "rel": "../" + MODS, "rel_slash": "../" + MODS + "/",
               "dot_rel": "./../" + MODS, "abs_slash": bx.mods + "/",
               "through_cwd": os.path.join(bx.proj, "..", MODS)}[sp]
    es = spec.get("entry_spelling", "plain")
    first_dir = next((d.split("/", 1)[1] for d in spec.get("dirs", [])
                      if d.startswith(CWD + "/") and "/" not in d.split("/", 1)[1]
                      and not d.endswith(".capy")), None)
    if es == "through_dir" and first_dir is None:
        es = "dot"
    entry = {"plain": "main.capy", "dot": "./main.capy", "dslash": ".//main.capy",
             "up_down": "../%s/main.capy" % os.path.basename(bx.proj),
             "abs": os.path.join(bx.proj, "main.capy"),
             "through_dir": "%s/../main.capy" % first_dir}[es]
    res = bx.compile(["build", entry, "--mod-dir", mod_dir], world, trace=True, timeout=20)
    out = res.stdout.decode(errors="replace")
    diags = [(m.group(1), m.group(2), int(m.group(3))) for m in DIAG_RE.finditer(out)]
    loose_errors = [l for l in out.splitlines() if l.startswith("error")]
    obs = {
        "compile_exit": res.exit,
        "timed_out": res.timed_out,
        "diags": diags,
        "error_lines": loose_errors,
        "stdout_tail": boxmod.mask_scratch(res.stdout, bx).decode(errors="replace")[-1200:],
        "stderr_tail": res.stderr.decode(errors="replace")[-600:],
        "opens": {},
        "fired": res.fired(),
        "run_stdout": None,
        "run_exit": None,
        "sched_files": None,
    }
    for e in res.events:
        if e.call in ("open", "openat") and e.result >= 0 and ".capy flags=" in e.arg:
            path = e.arg.split(" flags=")[0]
            if path.startswith(bx.root + "/"):
                path = path[len(bx.root) + 1:]
            obs["opens"][norm(path)] = obs["opens"].get(norm(path), 0) + 1
    if res.trace:
        first = res.trace.splitlines()[0] if res.trace.splitlines() else ""
        if first.startswith("start\t"):
            keys = set(re.findall(r"file:FileName\(Key\(Spur\((\d+)\)\)\)", first))
            obs["sched_files"] = len(keys)
    exe = os.path.join(bx.proj, "out", "main")
    if res.exit == 0 and os.path.exists(exe) and want_run:
        r = bx.execute(exe)
        obs["run_stdout"] = r.stdout.decode(errors="replace")
        obs["run_exit"] = r.exit
    expected = {
        "reachable": reachable,
        "rejected": {str(k): v for k, v in rejected.items()},
        "output": "".join("%d\n" % v for v in
                          [1] + [model.chain_value(edges, c) for c in chains]
                          + [spec["files"][edges["%s/main.capy" % CWD]["@" + imp["alias"]]]["id"]
                             for imp in spec["files"]["%s/main.capy" % CWD]["imports"]
                             if imp.get("local") and imp["line"] not in rejected]),
        "status": spec["status"],
    }
    return expected, obs


def judge(expected, obs, faulted):
    """-> list of (class, detail); empty = the world agrees with the model"""
    bad = []
    rejected = expected["rejected"]
    if obs["timed_out"]:
        return [("compiler-timeout", "the compiler did not finish")]
    exit_ = obs["compile_exit"]
    crashed = exit_ not in (0, 1) or (exit_ == 1 and not obs["error_lines"]
                                      and "not compiling" not in obs["stdout_tail"]
                                      and not faulted)
    if faulted:
        # may fail, never wrong
        if exit_ == 0 and obs["run_stdout"] is not None:
            if rejected:
                bad.append(("accepted-with-rejected-import", "build succeeded although %s must be rejected"
                            % sorted(rejected)))
            if (obs["run_stdout"], obs["run_exit"]) != (expected["output"], expected["status"]):
                bad.append(("wrong-output-under-fault", "expected %r/%d, got %r/%r" % (
                    expected["output"], expected["status"], obs["run_stdout"], obs["run_exit"])))
        for p, n in obs["opens"].items():
            if n > 1:
                bad.append(("file-opened-twice", "%s was opened %d times" % (p, n)))
        return bad
    if crashed:
        return [("compiler-crashed", "exit %r: %s" % (exit_, obs["stderr_tail"][-300:]))]
    # (1) diagnostics
    seen_lines = {}
    for msg, path, line in obs["diags"]:
        kind = None
        for k, pat in KIND_PATTERNS:
            if pat.match(msg):
                kind = k
        if kind is None:
            bad.append(("unexpected-diagnostic", "%s at %s:%d" % (msg, path, line)))
            continue
        seen_lines.setdefault(line, []).append(kind)
    for line, kinds in seen_lines.items():
        if str(line) not in rejected:
            bad.append(("valid-import-rejected", "line %d: %s" % (line, kinds)))
            continue
        allowed = rejected[str(line)][1]
        if len(kinds) != 1:
            bad.append(("import-reported-twice", "line %d: %s" % (line, kinds)))
        elif kinds[0] not in allowed:
            bad.append(("wrong-rejection-reason", "line %d: reported %s, applicable %s" % (
                line, kinds[0], allowed)))
    for line in rejected:
        if int(line) not in seen_lines:
            bad.append(("invalid-import-accepted", "line %s of %s (%s) was not rejected" % (
                line, rejected[line][0], rejected[line][1])))
    if len(obs["error_lines"]) != len(obs["diags"]):
        bad.append(("unexpected-diagnostic", "error lines without a location: %s" % obs["error_lines"][:3]))
    if rejected and exit_ == 0:
        bad.append(("accepted-with-rejected-import", "exit 0 with rejected imports"))
    if not rejected and exit_ != 0 and not bad:
        bad.append(("valid-world-rejected", "exit %r: %s" % (exit_, obs["stdout_tail"][-300:])))
    # (2) each reachable file compiled exactly once
    reach = set(expected["reachable"])
    for p in expected["reachable"]:
        n = obs["opens"].get(p, 0)
        if n != 1:
            bad.append(("reachable-file-opened-%d-times" % n, p))
    if obs["sched_files"] is not None and obs["sched_files"] != len(reach):
        bad.append(("compiled-file-count", "the scheduler's work list holds globals of %d files, "
                    "%d files are reachable" % (obs["sched_files"], len(reach))))
    # (3) behaviour
    if not rejected and exit_ == 0:
        if obs["run_stdout"] is None:
            bad.append(("no-executable", "build reported success but out/main is missing"))
        elif (obs["run_stdout"], obs["run_exit"]) != (expected["output"], expected["status"]):
            bad.append(("wrong-output", "expected %r/%d, got %r/%r" % (
                expected["output"], expected["status"], obs["run_stdout"], obs["run_exit"])))
    return bad


# ------------------------------------------------------------------------------------------
# worlds of the compiler process (legal I/O behaviour and hard faults)

def legal_io_world(rnd):
    w = boxmod.world()
    if rnd.random() < 0.5:
        w["shortread"] = rnd.choice([1, 2, 7, 64])
    if rnd.random() < 0.4:
        w["eintr_read"] = rnd.randint(1, 6)
    if rnd.random() < 0.4:
        w["eintr_open"] = rnd.randint(1, 4)
    if rnd.random() < 0.3:
        w["shortwrite_stdout"] = rnd.choice([1, 5, 40])
    if rnd.random() < 0.3:
        w["shortwrite_obj"] = rnd.choice([1, 100, 1000])
    if rnd.random() < 0.2:
        w["eintr_write_obj"] = rnd.randint(1, 2)
    if rnd.random() < 0.2:
        w["eintr_write_stdout"] = rnd.randint(1, 6)
    w["hashseed"] = rnd.getrandbits(63)
    return w


def faulted_world(rnd, n_reachable):
    w = boxmod.world()
    kind = rnd.choice(["fail_open", "fail_open", "fail_read", "fail_stat"])
    err = rnd.choice(["EIO", "EACCES", "ENOENT", "EMFILE"])
    if rnd.random() < 0.3:
        # by path: hits one file whenever (and only if) the compiler touches it
        w["faults"] = [[kind, 0, rnd.choice(["x.capy", "y.capy", "z.capy", "w.capy", "mod.capy"]), err]]
    else:
        w["faults"] = [[kind, rnd.randint(1, max(2, 2 * n_reachable)), "*", err]]
    if rnd.random() < 0.3:
        w["shortread"] = rnd.choice([1, 7])
    return w


def task(t):
    seed, idx, mode = t
    rnd = random.Random(common.sub_seed(seed, "c28-world", mode, idx))
    bx = common.worker_box()
    spec = gen_world(rnd)
    if mode == "plain":
        w = boxmod.world()
    elif mode == "legal":
        w = legal_io_world(rnd)
    else:
        n = len(Model(spec).analyse()[0])
        w = faulted_world(rnd, n)
    expected, obs = run_world(bx, spec, w)
    bad = judge(expected, obs, faulted=(mode == "fault"))
    recovered = None
    if mode == "fault" and not bad:
        # once the faults stop: the same tree, with whatever the faulted build left behind in
        # out/, built again without faults must come out exactly as the model says
        expected2, obs2 = run_world(bx, spec, boxmod.world(), keep_tree=True)
        bad2 = judge(expected2, obs2, faulted=False)
        recovered = not bad2
        if bad2:
            bad = [("after-fault-" + c, d) for c, d in bad2]
            expected, obs, w = expected2, obs2, dict(w, then_fault_free_rebuild=True)
    crashed_under_fault = mode == "fault" and obs["compile_exit"] not in (0, 1)
    kinds = sorted(set(k for v in expected["rejected"].values() for k in v[1]))
    reject_first = sorted(set(v[1][0] for v in expected["rejected"].values()))
    r = {
        "idx": idx, "mode": mode,
        "rejected": len(expected["rejected"]),
        "kinds": kinds,
        "observed_kinds": sorted(set(k for m, _, _ in obs["diags"] for k, p in KIND_PATTERNS if p.match(m))),
        "reachable": len(expected["reachable"]),
        "accepted": obs["compile_exit"] == 0,
        "opens_checked": len(expected["reachable"]),
        # not binding (the property does not forbid looking at other files), but worth knowing
        "unreachable_opened": len([p for p in obs["opens"] if p not in expected["reachable"]]),
        "fired": obs["fired"],
        "crashed_under_fault": crashed_under_fault,
        "recovered_after_fault": recovered,
        "has_cycle": has_cycle(spec),
        "self_import": any(Model(spec).resolve(f, i)[0] == f for f in spec["files"] for i in spec["files"][f]["imports"]),
        "spellings": len(set(i["arg"] for f in spec["files"].values() for i in f["imports"])),
        "shape": common.sha(json.dumps([sorted(spec["files"]), sorted(
            (f, i["kind"], i["arg"]) for f in spec["files"] for i in spec["files"][f]["imports"])])),
        "bad": bad,
        "spec": spec if bad else None,
        "world": w if bad else None,
        "expected": expected if bad else None,
        "obs": {k: v for k, v in obs.items()} if bad else None,
        "sample": None,
    }
    if not bad and idx % 40 == 0:
        r["sample"] = {"files": {p: [(i["kind"], i["arg"]) for i in f["imports"]]
                                 for p, f in spec["files"].items()},
                       "expected_output": expected["output"], "rejected_lines": sorted(expected["rejected"]),
                       "world": {k: v for k, v in w.items() if v != boxmod.REFERENCE_WORLD.get(k)}}
    _ = reject_first
    return r


def has_cycle(spec):
    m = Model(spec)
    _, _, edges = m.analyse()
    color = {}

    def dfs(f):
        color[f] = 1
        for t in edges.get(f, {}).values():
            if color.get(t) == 1:
                return True
            if t not in color and dfs(t):
                return True
        color[f] = 2
        return False

    return dfs("%s/main.capy" % CWD)


# ------------------------------------------------------------------------------------------
# minimisation and replay

def minimise(spec, world, cls, faulted, budget=80):
    bx = common.worker_box()
    trials = [0]

    two_step = bool(world.get("then_fault_free_rebuild"))
    first = {k: v for k, v in world.items() if k != "then_fault_free_rebuild"}

    def fails(s):
        if trials[0] >= budget:
            return False
        trials[0] += 1
        s = json.loads(json.dumps(s))
        if two_step:
            run_world(bx, s, first)
            expected, obs = run_world(bx, s, boxmod.world(), keep_tree=True)
            return any("after-fault-" + c == cls for c, _ in judge(expected, obs, False))
        expected, obs = run_world(bx, s, world)
        return any(c == cls for c, _ in judge(expected, obs, faulted))

    best = json.loads(json.dumps(spec))
    if not fails(best):
        return best, trials[0], False
    progress = True
    while progress and trials[0] < budget:
        progress = False
        # drop chains
        for i in range(len(best["chains"]) - 1, -1, -1):
            cand = json.loads(json.dumps(best))
            del cand["chains"][i]
            if fails(cand):
                best, progress = cand, True
        # drop imports
        for f in sorted(best["files"]):
            for i in range(len(best["files"][f]["imports"]) - 1, -1, -1):
                cand = json.loads(json.dumps(best))
                del cand["files"][f]["imports"][i]
                if fails(cand):
                    best, progress = cand, True
        # drop files nothing imports any more
        for f in sorted(best["files"]):
            if f.endswith("p/main.capy"):
                continue
            cand = json.loads(json.dumps(best))
            del cand["files"][f]
            if fails(cand):
                best, progress = cand, True
    return best, trials[0], True


def replay(path):
    with open(path) as f:
        doc = json.load(f)
    bx = common.worker_box()
    spec = doc["spec"]
    faulted = bool(doc["world"].get("faults"))
    if doc["world"].get("then_fault_free_rebuild"):
        first = {k: v for k, v in doc["world"].items() if k != "then_fault_free_rebuild"}
        run_world(bx, spec, first)
        expected, obs = run_world(bx, spec, boxmod.world(), keep_tree=True)
        bad = [("after-fault-" + c, d) for c, d in judge(expected, obs, False)]
    else:
        expected, obs = run_world(bx, spec, doc["world"])
        bad = judge(expected, obs, faulted)
    print("expected: rejected=%s output=%r" % (sorted(expected["rejected"]), expected["output"]))
    print("observed: exit=%s diags=%s run=%r/%r" % (
        obs["compile_exit"], [(m, l) for m, _, l in obs["diags"]], obs["run_stdout"], obs["run_exit"]))
    if bad:
        for c, d in bad:
            print("  %s: %s" % (c, d))
        common.report_violation(PROP, path, "%s: %s" % bad[0])
        return common.EXIT_VIOLATION
    print("replay: the world agrees with the model (no violation)")
    return common.EXIT_OK


def main(tier, seed, replay_path=None):
    if replay_path:
        return replay(replay_path)
    t0 = time.time()
    if tier == "quick":
        n_plain, n_legal, n_fault, budget_s = 1200, 900, 700, 240
    else:
        n_plain, n_legal, n_fault, budget_s = 40000, 30000, 20000, 3000
    scale = float(os.environ.get("C28_SCALE", "1"))
    n_plain, n_legal, n_fault = int(n_plain * scale), int(n_legal * scale), int(n_fault * scale)
    tasks = [(seed, i, "plain") for i in range(n_plain)] + \
            [(seed, i, "legal") for i in range(n_legal)] + \
            [(seed, i, "fault") for i in range(n_fault)]
    # interleave the three batches so that a deadline cuts all of them evenly
    tasks.sort(key=lambda t: (t[1], t[2]))
    results = common.parallel_map(task, tasks, deadline=t0 + budget_s)

    violations = []
    for r in results:
        if r["bad"]:
            violations.append(r)
    groups = {}
    for r in violations:
        sig = ""
        if r["bad"][0][0] == "compiler-crashed":
            # tell crashes apart by where and why (symbol names blanked down to their kind prefix)
            m = re.search(r"panicked at ([^\n]*)\n([^\n]*)", r["bad"][0][1])
            if m:
                sig = re.sub(r":\d+:\d+:?$", "", m.group(1)) + " " + re.sub(r"\d+\w*", "#", m.group(2))[:60]
        groups.setdefault((r["mode"], r["bad"][0][0], sig), []).append(r)
    for key in sorted(groups):
        r = groups[key][0]
        cls = r["bad"][0][0]
        spec, trials, reproduced = minimise(r["spec"], r["world"], cls, r["mode"] == "fault") \
            if len(groups) <= 8 else (r["spec"], 0, False)
        doc = {"format": "capysim-c28-replay-v1", "property": PROP, "seed": seed, "world_index": r["idx"],
               "mode": r["mode"], "class": cls, "detail": r["bad"], "spec": spec, "world": r["world"],
               "expected": r["expected"], "observed": r["obs"], "minimisation_trials": trials,
               "reproduced_during_minimisation": reproduced, "alike": len(groups[key])}
        path = common.write_replay(PROP, "c28-seed%d-%s-w%d-%s.json" % (seed, r["mode"], r["idx"], cls), doc)
        common.report_violation(PROP, path, "%s world %d: %s: %s (%d worlds alike)" % (
            r["mode"], r["idx"], cls, r["bad"][0][1][:200], len(groups[key])))

    wall = time.time() - t0
    per_mode = {}
    fired = {}
    kinds_hit = {}
    observed_kinds = {}
    shapes = set()
    for r in results:
        m = per_mode.setdefault(r["mode"], {"worlds": 0, "accepted": 0, "with_rejected_imports": 0,
                                            "crashed_under_fault": 0})
        m["worlds"] += 1
        m["accepted"] += 1 if r["accepted"] else 0
        m["with_rejected_imports"] += 1 if r["rejected"] else 0
        m["crashed_under_fault"] += 1 if r["crashed_under_fault"] else 0
        if r.get("recovered_after_fault") is not None:
            m["fault_free_rebuilds_after_fault"] = m.get("fault_free_rebuilds_after_fault", 0) + 1
            m["of_which_agree_with_model"] = m.get("of_which_agree_with_model", 0) + (1 if r["recovered_after_fault"] else 0)
        for k, v in r["fired"].items():
            fired[k] = fired.get(k, 0) + v
        for k in r["kinds"]:
            kinds_hit[k] = kinds_hit.get(k, 0) + 1
        for k in r["observed_kinds"]:
            observed_kinds[k] = observed_kinds.get(k, 0) + 1
        shapes.add(r["shape"])
    samples = [r["sample"] for r in results if r["sample"]][:3] or [{"note": "no sample"}]
    coverage = {
        "evaluations": len(results),
        "distinct_nontrivial": len(shapes),
        "rule": "A case is one world: a directory tree (<= 6 project files in <= 3 directories, an "
                "outside directory, a module directory) with seeded import statements, compiled by "
                "the real compiler in a fault-free, legal-I/O (short reads, EINTR, short writes) or "
                "hard-fault configuration and judged against the reference model. Distinct = "
                "distinct (file set, multiset of (importer, kind, path spelling)) - every world has at "
                "least one import, so all are non-trivial.",
        "samples": samples,
        "worlds_by_mode": per_mode,
        "rejection_kinds_applicable": kinds_hit,
        "rejection_kinds_reported_by_compiler": observed_kinds,
        "worlds_with_import_cycles": len([r for r in results if r["has_cycle"]]),
        "worlds_with_self_import": len([r for r in results if r["self_import"]]),
        "opens_checked": sum(r["opens_checked"] for r in results if r["mode"] != "fault"),
        "opens_of_files_outside_the_reachable_set": sum(r["unreachable_opened"] for r in results),
        "injected_actions_fired": fired,
        "violating_worlds": len(violations),
        "runs_per_hour": int(len(results) / max(wall, 1e-9) * 3600),
        "simulated_components": {
            "real": ["capy compiler binary", "gcc/ld", "built executables", "the kernel's file system (tmpfs/ext4 scratch tree)"],
            "controlled": ["directory tree", "open/read/stat/write results (shim)", "hash seed", "clock", "pid", "ASLR off"],
            "stub": [],
        },
        "repo_state": common.repo_state(),
    }
    common.write_evidence(
        PROP, tier, seed, LEVEL, coverage,
        ["no symlinks and `..` only through existing directories, so lexical and physical resolution agree",
         "a file is 'compiled' when it is opened by the compiler and contributes globals to the scheduler's work list",
         "which rejection reason is reported when several apply is not part of the property: any applicable one is accepted",
         "sampling, not enumeration"],
        wall, len(violations))
    print("C28 %s: %d worlds (%s), %d distinct shapes, %d violating, %.0fs" % (
        tier, len(results), ", ".join("%s %d" % (k, v["worlds"]) for k, v in sorted(per_mode.items())),
        len(shapes), len(violations), wall))
    return common.EXIT_VIOLATION if violations else common.EXIT_OK
