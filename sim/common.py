"""Shared plumbing of the checks: (re)building what is simulated from /repo's working tree,
seeds, the worker pool, evidence files, known findings, replay files."""

import hashlib
import json
import multiprocessing
import os
import subprocess
import sys
import time

VERIF = os.path.dirname(os.path.dirname(os.path.abspath(__file__)))
# what is simulated is built from /repo's working tree; VERIF_REPO / VERIF_TARGET exist only so
# that mutation runs can point the same machinery at a scratch worktree
REPO = os.environ.get("VERIF_REPO", "/repo")
TARGET = os.environ.get("VERIF_TARGET", os.path.join(VERIF, "target"))
BUILD = os.path.join(VERIF, "build")
# /verif/evidence and /verif/replays describe /repo only: a run against a scratch worktree writes
# elsewhere unless told otherwise
_SCRATCH_OUT = None if REPO == "/repo" else "/tmp/verif-scratch-out-%d" % os.getuid()
EVIDENCE = os.environ.get("VERIF_EVIDENCE_DIR") or (
    os.path.join(_SCRATCH_OUT, "evidence") if _SCRATCH_OUT else os.path.join(VERIF, "evidence"))
REPLAYS = os.environ.get("VERIF_REPLAYS_DIR") or (
    os.path.join(_SCRATCH_OUT, "replays") if _SCRATCH_OUT else os.path.join(VERIF, "replays"))
KNOWN_FINDINGS = os.path.join(VERIF, "known_findings.json")
TOPOSIM = os.path.join(TARGET, "toposim", "release", "toposim")
CAPY = os.path.join(TARGET, "capy", "release", "capy")

DEFAULT_SEED = 20260921

EXIT_OK, EXIT_VIOLATION, EXIT_HARNESS = 0, 1, 2


def seed_from_env():
    v = os.environ.get("VERIF_SEED", "")
    try:
        return int(v) if v.strip() else DEFAULT_SEED
    except ValueError:
        return DEFAULT_SEED


def tier_from(args_tier):
    t = args_tier or os.environ.get("VERIF_TIER") or "quick"
    return t if t in ("quick", "thorough") else "quick"


def workers():
    try:
        # process creation does not scale with cores in this VM (measured: ~450 exec/s in
        # total, less under contention), so more workers than this only add contention
        return max(1, int(os.environ.get("VERIF_WORKERS", "") or 4))
    except ValueError:
        return 4


def sub_seed(seed, *parts):
    """a child seed, independent of PYTHONHASHSEED"""
    h = hashlib.sha256(("%d|" % seed + "|".join(str(p) for p in parts)).encode()).digest()
    return int.from_bytes(h[:8], "big")


def sha(data):
    if isinstance(data, str):
        data = data.encode()
    return hashlib.sha256(data).hexdigest()[:16]


# ------------------------------------------------------------------------------------------
# building

def harness_fail(msg):
    print("HARNESS-ERROR: %s" % msg)
    sys.stdout.flush()
    sys.exit(EXIT_HARNESS)


def _run(cmd, cwd=None, env=None, what=""):
    e = dict(os.environ)
    e["CARGO_NET_OFFLINE"] = "true"
    if env:
        e.update(env)
    p = subprocess.run(cmd, cwd=cwd, env=e, stdout=subprocess.PIPE, stderr=subprocess.STDOUT)
    if p.returncode != 0:
        sys.stdout.write(p.stdout.decode(errors="replace")[-6000:])
        harness_fail("%s failed (exit %d): %s" % (what or cmd[0], p.returncode, " ".join(cmd)))
    return p.stdout


def build_shim():
    os.makedirs(BUILD, exist_ok=True)
    src = os.path.join(VERIF, "shim")
    so = os.path.join(BUILD, "capysim_shim.so")
    launch = os.path.join(BUILD, "capysim_launch")
    if (not os.path.exists(so)
            or os.path.getmtime(so) < os.path.getmtime(os.path.join(src, "capysim_shim.c"))):
        _run(["gcc", "-O2", "-w", "-shared", "-fPIC", "-o", so,
              os.path.join(src, "capysim_shim.c"), "-ldl"], what="building the shim")
    if (not os.path.exists(launch)
            or os.path.getmtime(launch) < os.path.getmtime(os.path.join(src, "capysim_launch.c"))):
        _run(["gcc", "-O2", "-w", "-o", launch, os.path.join(src, "capysim_launch.c")],
             what="building the launcher")


def build_capy():
    """the real compiler, from /repo's current working tree, hooks compiled in (inert unless
    CAPY_VERIF_SCHED_TRACE is set)"""
    t0 = time.time()
    _run(["cargo", "build", "--release", "-p", "capy", "--offline",
          "--target-dir", os.path.join(TARGET, "capy")],
         cwd=REPO,
         env={"RUSTFLAGS": "--cfg capy_verif --check-cfg cfg(capy_verif)"},
         what="building capy with hooks")
    if not os.path.exists(CAPY):
        harness_fail("no capy binary after the build")
    return time.time() - t0


def build_toposim():
    import shutil
    d = os.path.join(VERIF, "toposim")
    if REPO != "/repo":
        # mutation runs: same crate, path dependency pointed at the scratch worktree
        d2 = os.path.join(TARGET, "toposim-src")
        shutil.rmtree(d2, ignore_errors=True)
        shutil.copytree(d, d2, ignore=shutil.ignore_patterns(".cargo"))
        with open(os.path.join(d2, "Cargo.toml")) as f:
            text = f.read().replace('"/repo/crates/topo"', '"%s/crates/topo"' % REPO)
        with open(os.path.join(d2, "Cargo.toml"), "w") as f:
            f.write(text)
        d = d2
    lock = os.path.join(d, "Cargo.lock")
    if not os.path.exists(lock):
        shutil.copy(os.path.join(REPO, "Cargo.lock"), lock)
    _run(["cargo", "build", "--release", "--offline", "--target-dir", os.path.join(TARGET, "toposim")],
         cwd=d, what="building toposim")
    if not os.path.exists(TOPOSIM):
        harness_fail("no toposim binary after the build")


def repo_state():
    try:
        head = subprocess.run(["git", "-C", REPO, "rev-parse", "--short", "HEAD"],
                              stdout=subprocess.PIPE).stdout.decode().strip()
        dirty = subprocess.run(["git", "-C", REPO, "status", "--porcelain", "--untracked-files=no"],
                               stdout=subprocess.PIPE).stdout.decode().strip()
        return head + ("+dirty" if dirty else "")
    except OSError:
        return "unknown"


# ------------------------------------------------------------------------------------------
# worker pool: each worker process owns one Box (scratch area w<NN>)

_BOX = None


def _init_worker(counter):
    global _BOX
    from . import box
    with counter.get_lock():
        wid = counter.value
        counter.value += 1
    _BOX = box.Box(wid)


def worker_box():
    global _BOX
    if _BOX is None:
        from . import box
        _BOX = box.Box(99)
    return _BOX


def parallel_map(fn, tasks, nworkers=None, deadline=None):
    """ordered results; tasks not started before `deadline` (time.time()) are skipped and
    reported as None at the end of the list"""
    nworkers = nworkers or workers()
    if nworkers <= 1 or len(tasks) <= 1:
        out = []
        for t in tasks:
            if deadline and time.time() > deadline:
                break
            out.append(fn(t))
        return out
    counter = multiprocessing.Value("i", 0)
    ctx = multiprocessing.get_context("fork")
    out = []
    with ctx.Pool(nworkers, initializer=_init_worker, initargs=(counter,)) as pool:
        it = pool.imap(fn, tasks, chunksize=1)
        for _ in range(len(tasks)):
            try:
                out.append(it.next())
            except StopIteration:
                break
            if deadline and time.time() > deadline:
                pool.terminate()
                break
    return out


def cleanup_scratch():
    import shutil
    from . import box
    shutil.rmtree(box.SCRATCH_ROOT, ignore_errors=True)


# ------------------------------------------------------------------------------------------
# evidence, findings, replays

def write_evidence(prop, tier, seed, level, coverage, assumptions, wall_s, violations, extra=None):
    os.makedirs(EVIDENCE, exist_ok=True)
    doc = {
        "property_id": prop,
        "tier": tier,
        "seed": seed,
        "level": level,
        "coverage": coverage,
        "assumptions": assumptions,
        "wall_s": round(wall_s, 2),
        "violations": violations,
    }
    if extra:
        doc.update(extra)
    path = os.path.join(EVIDENCE, "%s.json" % prop)
    tmp = path + ".tmp"
    with open(tmp, "w") as f:
        json.dump(doc, f, indent=1, sort_keys=True)
        f.write("\n")
    os.replace(tmp, path)
    return path


def load_known_findings(prop):
    """entries of known_findings.json for this property: (open findings, fixed entries)"""
    try:
        with open(KNOWN_FINDINGS) as f:
            doc = json.load(f)
    except FileNotFoundError:
        return [], []
    open_, fixed = [], []
    for e in doc.get("findings", []):
        if e.get("property") != prop:
            continue
        (fixed if e.get("status") == "fixed" else open_).append(e)
    return open_, fixed


def write_replay(prop, name, doc):
    d = os.path.join(REPLAYS, prop)
    os.makedirs(d, exist_ok=True)
    path = os.path.join(d, name)
    with open(path, "w") as f:
        json.dump(doc, f, indent=1, sort_keys=True)
        f.write("\n")
    return path


def report_violation(prop, replay_path, summary):
    print("VIOLATION property=%s replay=%s" % (prop, replay_path))
    print("  " + summary)
    sys.stdout.flush()


def report_known(prop, what):
    print("KNOWN-FINDING: property=%s %s" % (prop, what))
    sys.stdout.flush()
