"""Workload taken from the repository itself: the capy sources that the project's own tests and
examples are made of.

  * `snippets()`   every raw-string program handed to `check(..)` / `check_raw(..)` in
                   crates/hir_ty/src/tests/*.rs and crates/codegen/src/tests.rs - several hundred
                   small programs, many of them *invalid on purpose* (one test per diagnostic
                   kind). They are read from /repo's working tree at run time; if the layout of
                   the test files changes and nothing is found, the families that use them are
                   simply empty (and say so in the evidence).
  * `split_items(text)` / `permute(text, rnd)`  a program's top-level definitions, and the same
                   program with them in another textual order.

Nothing here knows what the programs mean: C21 only needs them to be compiled twice, C20 compares
an accepted program with its own permutations.
"""

import glob
import os
import re

from . import common

RAW = re.compile(r'\bcheck(?:_raw|_raw_with_args)?\(\s*r(#+)"(.*?)"\1', re.S)
MARK = "#- "


def _dedent(text):
    lines = text.split("\n")
    ind = [len(l) - len(l.lstrip(" ")) for l in lines if l.strip()]
    k = min(ind) if ind else 0
    return "\n".join(l[k:] if len(l) >= k else l for l in lines).strip("\n") + "\n"


def _split_modules(text):
    """the `#- file.capy` convention of test-utils::split_multi_module_test_data"""
    if MARK not in text:
        return {"main.capy": _dedent(text)}
    files, cur = {}, None
    for line in text.split("\n"):
        s = line.strip()
        if s.startswith(MARK):
            cur = s[len(MARK):].strip()
            files[cur] = []
        elif cur is not None:
            files[cur].append(line)
    return {k: _dedent("\n".join(v)) for k, v in files.items()}


_cache = None


def snippets():
    """-> list of (label, {file: text}, uses_core)"""
    global _cache
    if _cache is not None:
        return _cache
    out = []
    srcs = sorted(glob.glob(os.path.join(common.REPO, "crates/hir_ty/src/tests/**/*.rs"), recursive=True))
    srcs.append(os.path.join(common.REPO, "crates/codegen/src/tests.rs"))
    for path in srcs:
        try:
            with open(path, encoding="utf-8") as f:
                text = f.read()
        except OSError:
            continue
        rel = os.path.relpath(path, common.REPO)
        for i, m in enumerate(RAW.finditer(text)):
            files = _split_modules(m.group(2))
            if "main.capy" not in files or len(files["main.capy"]) > 20000:
                continue
            # only relative imports of files that are part of the snippet can be materialised
            ok = True
            for t in files.values():
                for imp in re.findall(r'#import\("([^"]*)"\)', t):
                    if imp not in files:
                        ok = False
            if not ok:
                continue
            uses_core = any('#mod("core")' in t for t in files.values())
            out.append(("%s#%d" % (rel, i), files, uses_core))
    _cache = out
    return out


# ------------------------------------------------------------------------------------------
# top-level definitions

START = re.compile(r"^[A-Za-z_]\w*\s*:", re.M)


def split_items(text):
    """-> (prefix, [items]) where every item starts with `name :` at nesting depth 0 at the
    start of a line and runs up to the next such start; None if the text has no such shape"""
    depth = 0
    i, n = 0, len(text)
    starts = []
    line_start = True
    while i < n:
        ch = text[i]
        if line_start and depth == 0:
            m = START.match(text, i)
            if m and m.start() == i:
                starts.append(i)
        line_start = False
        if ch == "\n":
            line_start = True
        elif ch == "/" and text.startswith("//", i):
            j = text.find("\n", i)
            i = n if j < 0 else j
            continue
        elif ch == '"':
            i += 1
            while i < n and text[i] != '"':
                i += 2 if text[i] == "\\" else 1
        elif ch == "'":
            # char literal ('a', '\n') - but not a label tick
            m = re.match(r"'(\\.|[^\\'])'", text[i:i + 4])
            if m:
                i += m.end() - 1
        elif ch in "({[":
            depth += 1
        elif ch in ")}]":
            depth -= 1
            if depth < 0:
                return None
        i += 1
    if depth != 0 or len(starts) < 2:
        return None
    prefix = text[:starts[0]]
    items = [text[a:b] for a, b in zip(starts, starts[1:] + [n])]
    return prefix, items


def apply_order(text, order):
    prefix, items = split_items(text)
    items = [it if it.endswith("\n") else it + "\n" for it in items]
    return prefix + "".join(items[k] for k in order)


def permute_order(text, rnd):
    """-> (order, text with the definitions in that order), or None if the text cannot be split
    or the shuffle gives the same order back"""
    sp = split_items(text)
    if sp is None:
        return None
    order = list(range(len(sp[1])))
    for _ in range(4):
        rnd.shuffle(order)
        if order != sorted(order):
            break
    if order == sorted(order):
        return None
    return order, apply_order(text, order)


def permute(text, rnd):
    r = permute_order(text, rnd)
    return None if r is None else r[1]
