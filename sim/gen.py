"""Workload generator G: seeded, well-typed capy programs made of interdependent globals.

A Program is a list of Items (globals) with explicit dependencies. It can be rendered

  * as one file in generation order (the *base*), or
  * under a Variant: a permutation of the definitions, a partition into up to 3 mutually
    importing files and an order of the import declarations,

and every rendering denotes the same program: references that cross a file boundary are
rewritten to `alias.name`. Programs print a digest of every global through a tiny
`putchar`-based printer and return a status, so "what the executable does" is observable.
Nothing a program prints depends on which file a definition lives in.

Well-typedness is by construction for the feature set below; whether the pinned compiler
agrees is established by calibration batches on the unchanged tree (DESIGN.md, feature ladder).

All randomness comes from the random.Random handed in.
"""

PRELUDE_PUTCHAR = "putchar :: (ch: i32) -> i32 extern;"

PRELUDE_EMIT = """emit :: (n: i64) {
    v := n;
    if v < 0 { putchar(45); v = 0 - v; }
    digits : [20]i32;
    cnt := 0;
    if v == 0 { digits[0] = 48; cnt = 1; }
    while v > 0 { digits[cnt] = i32.(48 + v % 10); v = v / 10; cnt += 1; }
    while cnt > 0 { cnt -= 1; putchar(digits[cnt]); }
    putchar(10);
}"""

INT_FIELD_TYPES = ["i64", "u8", "u16", "i32", "u64", "i64", "i64"]

ALL_FEATURES = [
    "const_chain",      # consts defined through comptime blocks over other consts
    "usize_sizes",      # array sizes taken from usize consts
    "structs",
    "nested_structs",
    "enums",
    "enum_discriminants",
    "distinct",
    "alias",
    "functions",
    "recursion",        # self recursion
    "mutual_recursion",
    "struct_fns",       # functions returning / taking structs
    "comptime_int",     # comptime globals calling functions
    "comptime_struct",  # comptime globals returning aggregates
    "generic_type",     # (comptime T: type, a: T, b: T) -> T
    "generic_int",      # (comptime k: i64, a: i64) -> i64
    "fn_value",         # a global that is another function's value:  h :: f;
    "local_comptime",   # comptime blocks inside function bodies
    # --- rung 2 of the feature ladder ---
    "global_array",     # a comptime global that is an array built from other consts
    "value_alias",      # w :: c;  a global that is just another global's value
    "comptime_enum",    # a comptime global holding an enum value with payload
    "higher_order",     # functions taking function values
    "type_fn",          # (comptime T: type, comptime n: usize) -> type, instantiated locally
    "loops",            # functions with mutable locals and while loops
    # --- rung 3 ---
    "typed_user_globals",   # globals annotated with user-defined types:  p : T : comptime {..}
    "global_readers",       # globals that read other aggregate globals:  r :: comptime { p.a }
    "local_comptime_calls", # comptime blocks *inside recursive functions*, after the recursive call,
                            # that call other functions: as a constant, an array size, a type
    "generic_dependent",    # generic functions with a comptime parameter whose type is an earlier
                            # comptime parameter:  (comptime T: type, comptime v: T, x: T) -> T
    "comptime_locals",      # comptime globals whose blocks declare local variables and read other
                            # comptime globals
    "use_core",             # main prints through core.println (the real `core` module, ~300 more
                            # items incl. cycles in the scheduler) instead of the putchar printer
    "same_names",           # two definitions with the *same name* living in different files (they
                            # stay in their files; everything else moves around them)
    "generic_twins",        # same-shaped functions calling one generic function with different
                            # type arguments; variants like to put them first in different files
    "struct_cast",          # a second struct with the same member names (other order, other int
                            # widths) and a function that casts one into the other:  S2.(s)
    # --- rung 4: the rest of the language's type constructors and control flow ---
    "floats",               # f64/f32 comptime consts and functions computing through floats
    "optionals",            # functions returning ?i64, switch over them, `.try` chains
    "error_unions",         # an error enum, functions returning Er!i64, `.try`, nested switch
    "pointers",             # functions taking ^S / ^mut S, auto-deref member access
    "slices",               # functions taking []i64, arrays (local and global) coerced to slices
    "defer_break",          # defer blocks, labelled blocks left by `break` with a value
    "lambdas",              # local lambdas, nested named functions, lambdas passed as arguments
    "type_blocks",          # a type computed by a comptime block from a const; values of that type
    "bools",                # bool comptime consts steering an `if`
    "struct_arrays",        # comptime globals that are arrays of structs
    "fn_members",           # structs with a function-typed member, called through the member
    "anon_literals",        # `.{ .. }` literals typed by their annotation
    "global_type_inst",     # one global instantiation of a type-returning generic (VT :: comptime Vec(..))
    "untyped_consts",       # globals without annotation holding a bare literal:  uc :: 7;  and small
                            # typed ones (u8 / u16), used inside wider expressions
    "const_arrays",         # constant (non-comptime) array globals whose items are other globals
                            # of the same or a narrower number type:  ka :: i64.[c1, uc2, 3];
    "generic_enums",        # a type-returning generic function whose result is an enum, instantiated
                            # several times as globals; functions that build values of one of them
    "alias_hops",           # alias chains over usize consts (na :: n1;), array types named by a
                            # global (AT :: [na]i64;), enum discriminants taken from consts
    "local_comptime_aggs",  # comptime blocks *inside function bodies* whose results are aggregates
                            # (arrays, structs): they become data objects of the function
    "type_fields",          # comptime globals holding a struct with a `type` member, compared with
                            # the types themselves at runtime
    "generic_alias_param",  # a generic function whose comptime parameter is typed by a type alias
                            # global (MyI :: i64;), called from a comptime global
    "generic_enum_units",   # generic enum types with two payload-less variants, joined in an `if`
    "weak_locals",          # comptime globals whose blocks assign to locals that still have a weak
                            # ({uint}) type, then read another global, then give the local a
                            # strong type: what was learnt before the read must survive it
    "rec_lambdas",          # recursive functions that declare a local function / lambda *after*
                            # their recursive call
    "type_tables",          # comptime globals holding several `type` values in one aggregate
    "alias_recursion",      # a function that calls itself through a global that is just its own
                            # value:  hd :: st;  st :: (a) { .. hd(a - 1) .. }
    "distinct_generics",    # one generic function instantiated with a distinct type and with its
                            # base type, in different globals
    "enum_compare",         # == / != between values of enums with several different payload types,
                            # of optionals and of error unions
    "generic_enum_bases",   # a generic enum whose discriminants come from a comptime value parameter,
                            # instantiated twice with the same payload type and different bases;
                            # rarely (and on purpose) a function that mixes variants of the two -
                            # an ill-typed program that no order may accept
    "generic_nested_fns",   # a generic function that declares a local helper function whose header
                            # uses the comptime parameter, instantiated by different callers with
                            # types that share a machine type and differ in meaning (i64 / u64)
    "indirect_refs",        # variants may name a definition of another file *through a third file*:
                            # imp1.imp2.name
]


THEMES = [
    # constants, aggregates and the globals that read them
    ["const_chain", "usize_sizes", "structs", "nested_structs", "alias", "distinct", "comptime_struct",
     "struct_fns", "typed_user_globals", "global_readers", "value_alias", "global_array",
     "comptime_locals", "struct_arrays", "untyped_consts", "const_arrays", "alias_hops", "same_names",
     "indirect_refs", "comptime_int", "pointers"],
    # recursion and scheduling
    ["recursion", "mutual_recursion", "comptime_int", "const_chain", "local_comptime",
     "local_comptime_calls", "fn_value", "alias_recursion", "rec_lambdas", "weak_locals", "higher_order",
     "loops", "lambdas", "defer_break", "comptime_locals", "value_alias", "indirect_refs"],
    # generics
    ["generic_type", "generic_int", "generic_twins", "generic_dependent", "type_fn", "global_type_inst",
     "generic_nested_fns",
     "generic_enums", "generic_enum_units", "generic_enum_bases", "generic_alias_param",
     "distinct_generics", "distinct", "comptime_int", "structs", "indirect_refs"],
    # the other type constructors and what codegen makes of them
    ["enums", "enum_discriminants", "comptime_enum", "enum_compare", "optionals", "error_unions",
     "pointers", "slices", "floats", "struct_cast", "fn_members", "anon_literals", "type_fields",
     "type_tables", "type_blocks", "bools", "local_comptime_aggs", "structs", "struct_fns", "distinct",
     "indirect_refs"],
]


class Item:
    def __init__(self, name, kind):
        self.name = name
        self.kind = kind
        self.deps = set()       # names of other items referenced in the definition
        self.render = None      # callable(ref) -> source text of the definition
        self.uses = None        # callable(ref, tmp) -> list of statements for main (may be [])
        self.recursive = False  # member of a recursion group (self or mutual)
        self.is_function = False
        self.file = 0           # assigned by a Variant

    def __repr__(self):
        return "<%s %s>" % (self.kind, self.name)


class Program:
    def __init__(self):
        self.items = []         # generation order = base order
        self.by_name = {}
        self.status = 0
        self.features = []
        self.twins = []         # groups of same-shaped items (names)
        self.pins = {}          # item name -> file index it must live in
        self.public = {}        # item name -> the name it carries in the source text

    def add(self, item):
        self.items.append(item)
        self.by_name[item.name] = item

    def names(self):
        return [i.name for i in self.items]

    def closure(self, name):
        seen = set()
        todo = [name]
        while todo:
            n = todo.pop()
            for d in self.by_name[n].deps:
                if d not in seen and d in self.by_name:
                    seen.add(d)
                    todo.append(d)
        return seen

    def klass(self):
        """'B' if recursion is reachable from a global that is not a function, else 'A'"""
        for it in self.items:
            if it.is_function or it.kind in ("main", "emit", "putchar"):
                continue
            for d in self.closure(it.name):
                if self.by_name[d].recursive:
                    return "B"
        return "A"

    def without(self, names):
        """a copy of the program without the given items (and without their uses in main).
        Only valid if nothing that stays depends on them."""
        p = Program()
        p.status = self.status
        p.features = self.features
        p.pins = {k: v for k, v in self.pins.items() if k not in names}
        p.public = dict(self.public)
        p.twins = [[n for n in g if n not in names] for g in self.twins]
        p.twin_callee = getattr(self, "twin_callee", {})
        for it in self.items:
            if it.name not in names:
                p.add(it)
        return p

    def removable(self):
        """names of items nothing else depends on (main depends on nothing: it only *uses*)"""
        needed = set()
        for it in self.items:
            needed |= it.deps
        return [it.name for it in self.items
                if it.name not in needed and it.kind not in ("main", "emit", "putchar")]


class Variant:
    """order[i] = list of item names for file i, in textual order; import_order[i] = order of
    the alias declarations of file i (they are placed at the positions given in `order` under
    the pseudo-names '@f<j>')"""

    def __init__(self, order, via=None):
        self.order = order
        # indirect references: (file index, target file index) -> file index of the file the
        # reference goes through:  imp<mid>.imp<target>.name
        self.via = dict(via or {})

    def nfiles(self):
        return len(self.order)

    def to_json(self):
        d = {"order": self.order}
        if self.via:
            d["via"] = [[a, b, c] for (a, b), c in sorted(self.via.items())]
        return d

    @staticmethod
    def from_json(d):
        return Variant(d["order"], {(a, b): c for a, b, c in d.get("via", [])})


FILE_NAMES = ["main.capy", "mod1.capy", "mod2.capy"]
ALIASES = ["imp0", "imp1", "imp2"]


def base_variant(prog):
    pins = getattr(prog, "pins", {})
    if not pins:
        return Variant([prog.names()])
    files = [[] for _ in range(max(pins.values()) + 1)]
    for n in prog.names():
        files[pins.get(n, 0)].append(n)
    return Variant(files)


def where_of(files):
    return set(n for f in files for n in f)


def random_variant(prog, rnd, max_files=3):
    names = prog.names()
    pins = getattr(prog, "pins", {})
    nfiles = rnd.choice([1, 1, 2, 2, 3][: 2 * max_files - 1]) if max_files > 1 else 1
    if pins:
        nfiles = max(nfiles, max(pins.values()) + 1)
    files = [[] for _ in range(nfiles)]
    for n in names:
        it = prog.by_name[n]
        if n in pins:
            files[pins[n]].append(n)    # same-named definitions never leave their file
        elif it.kind in ("main", "emit", "putchar"):
            files[0].append(n)          # the entry point and its printer stay in the entry file
        else:
            files[rnd.randrange(nfiles)].append(n)
    if pins:
        # keep the file numbering stable: an empty file in the middle would renumber the pins
        for f in files:
            if not f:
                f.append(None)
    files = [f for f in files if f] or [[]]
    files = [[n for n in f if n is not None] for f in files]
    # a file that ended up empty disappears; the entry file is always files[0]
    for f in files:
        rnd.shuffle(f)
    twins = [g for g in getattr(prog, "twins", []) if len(g) >= 2]
    if twins and len(files) >= 2 and rnd.random() < 0.5 and not pins:
        # same-shaped definitions at the very top of different files: whatever the compiler
        # keys by position inside a file (arena indices) now coincides across files
        group = rnd.choice(twins)
        slots = list(range(len(files)))
        rnd.shuffle(slots)
        used = []
        for name, fi in zip(group, slots):
            for f in files:
                if name in f:
                    f.remove(name)
            files[fi].insert(0, name)
            used.append(fi)
        # the generic function they call should live in a file that holds none of them, so that
        # every twin reaches it the same way (through an alias)
        callee = getattr(prog, "twin_callee", {}).get(group[0])
        if callee in where_of(files):
            free = [i for i in range(len(files)) if i not in used]
            if not free and len(files) < 3:
                files.append([])
                free = [len(files) - 1]
            if free:
                for f in files:
                    if callee in f:
                        f.remove(callee)
                files[free[0]].append(callee)
        files = [f for i, f in enumerate(files) if f or i == 0]
    via = {}
    if "indirect_refs" in getattr(prog, "features", ()) and len(files) == 3:
        for a in range(3):
            for b in range(3):
                if a != b and rnd.random() < 0.4:
                    via[(a, b)] = 3 - a - b
    return Variant(files, via)


def render(prog, variant):
    """-> {file name: text}; file 0 is the entry file"""
    where = {}
    for fi, names in enumerate(variant.order):
        for n in names:
            if not n.startswith("@"):
                where[n] = fi
    via = getattr(variant, "via", None) or {}
    nfiles = len(variant.order)
    needed = [set() for _ in range(nfiles)]     # aliases each file has to declare
    per_file = []
    for fi, names in enumerate(variant.order):

        def ref(name, fi=fi):
            target = where[name]
            if target == fi:
                return name
            mid = via.get((fi, target))
            if mid is not None and mid not in (fi, target) and mid < nfiles:
                # through a third file, which then has to import the target itself
                needed[fi].add(mid)
                needed[mid].add(target)
                return "%s.%s.%s" % (ALIASES[mid], ALIASES[target], name)
            needed[fi].add(target)
            return "%s.%s" % (ALIASES[target], name)

        tmp_counter = [0]

        def tmp(prefix="t"):
            tmp_counter[0] += 1
            return "%s%d" % (prefix, tmp_counter[0])

        chunks = []
        placed_aliases = {}
        for n in names:
            if n.startswith("@imp"):
                placed_aliases[int(n[4:])] = len(chunks)
                chunks.append(None)
                continue
            it = prog.by_name[n]
            if it.kind == "main":
                body = []
                for other in prog.items:
                    if other.uses is not None:
                        body.extend(other.uses(ref, tmp))
                if "use_core" in prog.features:
                    body = [b.replace("emit(", "core.println(") for b in body]
                    chunks.append('core :: #mod("core");')
                text = "main :: () -> i32 {\n" + "".join("    %s\n" % s for s in body) \
                       + "    %d\n}" % prog.status
                chunks.append(text)
            else:
                chunks.append(it.render(ref))
        per_file.append((chunks, placed_aliases))
    out = {}
    for fi, (chunks, placed_aliases) in enumerate(per_file):
        # alias declarations: at their recorded position if the variant has one, else on top
        decls_on_top = []
        for target in sorted(needed[fi]):
            decl = '%s :: #import("%s");' % (ALIASES[target], FILE_NAMES[target])
            if target in placed_aliases:
                chunks[placed_aliases[target]] = decl
            else:
                decls_on_top.append(decl)
        chunks = decls_on_top + [c for c in chunks if c is not None]
        out[FILE_NAMES[fi]] = "\n\n".join(chunks) + "\n"
    public = getattr(prog, "public", {})
    if public:
        import re as _re
        pat = _re.compile(r"\b(%s)\b" % "|".join(sorted(public, key=len, reverse=True)))
        for k in out:
            out[k] = pat.sub(lambda m: public[m.group(1)], out[k])
    return out


def place_imports(prog, variant, rnd):
    """give the alias declarations seeded positions inside each file (so that the order of
    import declarations relative to each other and to the definitions varies too)"""
    where = {}
    for fi, names in enumerate(variant.order):
        for n in names:
            where[n] = fi
    new_order = []
    for fi, names in enumerate(variant.order):
        targets = set()
        for n in names:
            it = prog.by_name[n]
            deps = set(it.deps)
            if it.kind == "main":
                deps = set(prog.names())
            for d in deps:
                if d in where and where[d] != fi:
                    targets.add(where[d])
        names = list(names)
        targets = sorted(targets)
        rnd.shuffle(targets)
        twin_names = set(n for g in getattr(prog, "twins", []) for n in g)
        lo = 1 if names and names[0] in twin_names else 0
        for t in targets:
            names.insert(rnd.randrange(lo, len(names) + 1), "@imp%d" % t)
        new_order.append(names)
    return Variant(new_order, getattr(variant, "via", None))


# ------------------------------------------------------------------------------------------
# generation

class _Gen:
    def __init__(self, rnd, features, n_globals):
        self.rnd = rnd
        self.f = set(features)
        self.n = n_globals
        self.p = Program()
        self.p.features = sorted(features)
        self.counter = 0
        self.int_consts = []      # names of i64 consts / comptime ints
        self.usize_consts = {}    # name -> value
        self.structs = {}         # name -> [(field, type descriptor)]
        self.enums = {}           # name -> [(variant, payload type descriptor | None)]
        self.enum_score = {}      # enum name -> name of its scoring function
        self.distincts = {}       # name -> underlying int type
        self.aliases = {}         # alias name -> target name (struct)
        self.int_fns = []         # (i64) -> i64
        self.struct_makers = {}   # fn name -> struct name
        self.struct_takers = {}   # fn name -> struct name
        self.generic_type_fns = []
        self.generic_int_fns = []
        self.struct_globals = {}  # global name -> struct name (comptime aggregates)
        self.distinct_globals = {}  # global name -> distinct type name

    def fresh(self, prefix):
        self.counter += 1
        return "%s%d" % (prefix, self.counter)

    # --- expressions -------------------------------------------------------------------
    def lit(self, lo=0, hi=9):
        return str(self.rnd.randint(lo, hi))

    def iexpr(self, item, param=None, depth=2, allow_calls=True, exclude=()):
        """returns callable(ref) -> text of an i64 expression"""
        r = self.rnd
        kinds = ["lit"]
        if param:
            kinds += ["param"] * 3
        consts = [c for c in self.int_consts if c not in exclude]
        if consts:
            kinds += ["const"] * 3
        fns = [f for f in self.int_fns if f not in exclude]
        if allow_calls and fns:
            kinds += ["call"] * 3
        if allow_calls and self.generic_int_fns:
            kinds += ["gcall"]
        if allow_calls and self.generic_type_fns:
            kinds += ["tcall"]
        if depth > 0:
            kinds += ["bin"] * 4
        k = r.choice(kinds)
        if k == "lit":
            v = self.lit(1, 9)
            return lambda ref: v
        if k == "param":
            return lambda ref: param
        if k == "const":
            c = r.choice(consts)
            item.deps.add(c)
            return lambda ref: ref(c)
        if k == "call":
            fn = r.choice(fns)
            item.deps.add(fn)
            arg = self.small_arg(item, param, exclude)
            return lambda ref: "%s(%s)" % (ref(fn), arg(ref))
        if k == "gcall":
            fn = r.choice(self.generic_int_fns)
            item.deps.add(fn)
            kv = self.lit(1, 5)
            arg = self.small_arg(item, param, exclude)
            return lambda ref: "%s(%s, %s)" % (ref(fn), kv, arg(ref))
        if k == "tcall":
            fn = r.choice(self.generic_type_fns)
            item.deps.add(fn)
            a = self.small_arg(item, param, exclude)
            b = self.lit(1, 7)
            return lambda ref: "%s(i64, %s, %s)" % (ref(fn), a(ref), b)
        op = r.choice(["+", "+", "-", "*"])
        left = self.iexpr(item, param, depth - 1, allow_calls, exclude)
        right = self.iexpr(item, param, depth - 1, allow_calls, exclude)
        return lambda ref: "(%s %s %s)" % (left(ref), op, right(ref))

    def small_arg(self, item, param, exclude=()):
        """an i64 argument that keeps recursion shallow"""
        r = self.rnd
        if param and r.random() < 0.5:
            m = r.choice([3, 4, 5])
            return lambda ref: "%s %% %d" % (param, m)
        consts = [c for c in self.int_consts if c not in exclude]
        if consts and r.random() < 0.4:
            c = r.choice(consts)
            item.deps.add(c)
            m = r.choice([3, 4, 5])
            return lambda ref: "%s %% %d" % (ref(c), m)
        v = self.lit(0, 5)
        return lambda ref: v

    # --- types -------------------------------------------------------------------------
    def field_type(self, item, allow_named=True):
        """-> type descriptor: ('int', t) | ('array', size_text_fn, length, t) | ('named', name)"""
        r = self.rnd
        opts = ["int"] * 4
        opts += ["array"] * 2
        if allow_named and "nested_structs" in self.f and self.structs:
            opts += ["struct"]
        if allow_named and "distinct" in self.f and self.distincts:
            opts += ["distinct"]
        k = r.choice(opts)
        if k == "int":
            return ("int", r.choice(INT_FIELD_TYPES))
        if k == "array":
            t = r.choice(["i64", "i64", "u8", "i32"])
            if "usize_sizes" in self.f and self.usize_consts and r.random() < 0.7:
                c = r.choice(sorted(self.usize_consts))
                if getattr(self, "usize_aliases", None) and r.random() < 0.5:
                    c = r.choice(self.usize_aliases)
                item.deps.add(c)
                return ("array", c, self.usize_consts[c], t)
            n = r.randint(1, 4)
            return ("array", None, n, t)
        if k == "struct":
            s = r.choice(sorted(self.structs))
            item.deps.add(s)
            return ("named", s)
        d = r.choice(sorted(self.distincts))
        item.deps.add(d)
        return ("distinct", d)

    def type_text(self, td, ref):
        if td[0] == "int":
            return td[1]
        if td[0] == "array":
            size = ref(td[1]) if td[1] else str(td[2])
            return "[%s]%s" % (size, td[3])
        return ref(td[1])

    def value_text(self, td, ref, seed_expr):
        """an expression of type td whose value is derived from the i64 expression seed_expr"""
        if td[0] == "int":
            if td[1] == "i64":
                return seed_expr
            if td[1] in ("u8",):
                return "u8.((%s) %% 100 + 100)" % seed_expr
            return "%s.((%s) %% 1000 + 1000)" % (td[1], seed_expr)
        if td[0] == "array":
            elems = []
            for i in range(td[2]):
                if td[3] == "i64":
                    elems.append("%s + %d" % (seed_expr, i))
                elif td[3] == "u8":
                    elems.append("u8.((%s) %% 50 + %d)" % (seed_expr, 50 + i))
                else:
                    elems.append("%s.((%s) %% 500 + %d)" % (td[3], seed_expr, 500 + i))
            return "%s.[%s]" % (td[3], ", ".join(elems))
        if td[0] == "distinct":
            under = self.distincts[td[1]]
            inner = self.value_text(("int", under), ref, seed_expr)
            return "%s.(%s)" % (ref(td[1]), inner)
        fields = self.structs[td[1]]
        parts = ["%s = %s" % (fname, self.value_text(ftd, ref, "(%s + %d)" % (seed_expr, i)))
                 for i, (fname, ftd) in enumerate(fields)]
        return "%s.{ %s }" % (ref(td[1]), ", ".join(parts))

    def digest_text(self, td, ref, e):
        """an i64 expression summarising the value e of type td"""
        if td[0] == "int":
            return e if td[1] == "i64" else "i64.(%s)" % e
        if td[0] == "array":
            idxs = sorted(set([0, td[2] - 1]))
            parts = []
            for i in idxs:
                x = "%s[%d]" % (e, i)
                parts.append(x if td[3] == "i64" else "i64.(%s)" % x)
            return "(" + " + ".join(parts) + ")"
        if td[0] == "distinct":
            return "i64.(%s)" % e
        fields = self.structs[td[1]]
        parts = [self.digest_text(ftd, ref, "%s.%s" % (e, fname)) for fname, ftd in fields]
        return "(" + " + ".join(parts) + ")"

    # --- items -------------------------------------------------------------------------
    def add_prelude(self):
        it = Item("putchar", "putchar")
        it.is_function = True
        it.render = lambda ref: PRELUDE_PUTCHAR
        self.p.add(it)
        it = Item("emit", "emit")
        it.is_function = True
        it.deps.add("putchar")
        it.render = lambda ref: PRELUDE_EMIT
        self.p.add(it)

    def mk_const(self):
        name = self.fresh("c")
        it = Item(name, "const")
        r = self.rnd
        if "const_chain" in self.f and (self.int_consts or self.int_fns) and r.random() < 0.7:
            e = self.iexpr(it, None, depth=2, allow_calls="comptime_int" in self.f)
            typed = r.random() < 0.5
            if typed:
                it.render = lambda ref: "%s : i64 : comptime { (%s) %% 997 };" % (name, e(ref))
            else:
                # at least one operand is an i64 const or call, so the block's type is i64
                anchor = None
                if self.int_consts:
                    anchor = r.choice(self.int_consts)
                    it.deps.add(anchor)
                if anchor:
                    it.render = lambda ref: "%s :: comptime { (%s + %s) %% 997 };" % (
                        name, ref(anchor), e(ref))
                else:
                    it.render = lambda ref: "%s : i64 : comptime { (%s) %% 997 };" % (name, e(ref))
        else:
            v = r.randint(1, 40)
            it.render = lambda ref: "%s : i64 : %d;" % (name, v)
        it.uses = lambda ref, tmp: ["emit(%s);" % ref(name)]
        self.p.add(it)
        self.int_consts.append(name)

    def mk_usize(self):
        name = self.fresh("n")
        it = Item(name, "usize")
        r = self.rnd
        if self.usize_consts and "alias_hops" in self.f and r.random() < 0.45:
            c = r.choice(sorted(self.usize_consts))
            it.deps.add(c)
            val = self.usize_consts[c]
            it.render = lambda ref: "%s :: %s;" % (name, ref(c))
            self.usize_aliases = getattr(self, "usize_aliases", []) + [name]
        elif self.usize_consts and "const_chain" in self.f and r.random() < 0.6:
            c = r.choice(sorted(self.usize_consts))
            it.deps.add(c)
            if "pointers" in self.f and r.random() < 0.5:
                # the other constant is read through a pointer to it
                val = self.usize_consts[c] + 1
                it.render = lambda ref: "%s : usize : comptime { p := ^%s; p^ + 1 };" % (name, ref(c))
                self.force_size_use = name
            elif r.random() < 0.4:
                val = self.usize_consts[c] + 1
                it.render = lambda ref: "%s : usize : comptime { %s + 1 };" % (name, ref(c))
            else:
                # the other constant is read in both branches (and in the condition): places that
                # do not dominate each other
                # (the condition must not read it, or that first read would dominate the others)
                cv = self.usize_consts[c]
                others = [o for o in sorted(self.usize_consts) if o != c]
                if others and r.random() < 0.5:
                    o = r.choice(others)
                    it.deps.add(o)
                    even = self.usize_consts[o] % 2 == 0
                    cond = lambda ref: "%s %% 2 == 0" % ref(o)
                else:
                    k = r.randint(1, 9)
                    even = k % 2 == 0
                    cond = lambda ref: "i64.(%d) %% 2 == 0" % k
                val = cv + 1 if even else cv + 2
                it.render = lambda ref: (
                    "%s : usize : comptime { if %s { %s + 1 } else { %s + 2 } };"
                    % (name, cond(ref), ref(c), ref(c)))
                self.force_size_use = name
        else:
            val = r.randint(1, 4)
            if r.random() < 0.4:
                # a constant that has a comptime block of its own (which may or may not have been
                # evaluated by the time another block reads it)
                a = r.randint(0, val)
                it.render = lambda ref: "%s : usize : comptime { %d + %d };" % (name, a, val - a)
            else:
                it.render = lambda ref: "%s : usize : %d;" % (name, val)
        it.uses = lambda ref, tmp: ["emit(i64.(%s));" % ref(name)]
        self.p.add(it)
        self.usize_consts[name] = val
        if getattr(self, "force_size_use", None) == name:
            # such a constant is always used as an array size as well: that is what makes the
            # checker evaluate its block on demand
            self.force_size_use = None
            self.mk_array_type_alias(size_const=name)

    def mk_struct(self):
        name = self.fresh("S")
        it = Item(name, "struct")
        nf = self.rnd.randint(1, 4)
        fields = [("m%d" % i, self.field_type(it)) for i in range(nf)]
        self.structs[name] = fields
        td = ("named", name)

        def render(ref):
            return "%s :: struct { %s };" % (
                name, ", ".join("%s: %s" % (fn, self.type_text(ft, ref)) for fn, ft in fields))

        it.render = render
        seed = self.rnd.randint(1, 20)

        def uses(ref, tmp):
            v = tmp("s")
            return ["%s : %s = %s;" % (v, ref(name), self.value_text(td, ref, str(seed))),
                    "emit(%s);" % self.digest_text(td, ref, v)]

        it.uses = uses
        self.p.add(it)

    def mk_distinct(self):
        name = self.fresh("D")
        it = Item(name, "distinct")
        under = self.rnd.choice(["i64", "i64", "u8", "i32"])
        self.distincts[name] = under
        it.render = lambda ref: "%s :: distinct %s;" % (name, under)
        v = self.rnd.randint(1, 90)

        def uses(ref, tmp):
            x = tmp("d")
            return ["%s : %s = %s.(%s.(%d));" % (x, ref(name), ref(name), under, v),
                    "emit(i64.(%s));" % x]

        it.uses = uses
        self.p.add(it)

    def mk_alias(self):
        if not self.structs:
            return self.mk_struct()
        name = self.fresh("T")
        it = Item(name, "alias")
        target = self.rnd.choice(sorted(self.structs))
        it.deps.add(target)
        self.aliases[name] = target
        it.render = lambda ref: "%s :: %s;" % (name, ref(target))
        td = ("named", target)
        seed = self.rnd.randint(1, 20)

        def uses(ref, tmp):
            v = tmp("a")
            return ["%s : %s = %s;" % (v, ref(name), self.value_text(td, ref, str(seed))),
                    "emit(%s);" % self.digest_text(td, ref, v)]

        it.uses = uses
        self.p.add(it)

    def mk_enum(self):
        name = self.fresh("E")
        it = Item(name, "enum")
        r = self.rnd
        nv = r.randint(2, 4)
        variants = []
        discs = r.sample(range(1, 60), nv)
        for i in range(nv):
            k = r.choice(["unit", "int", "struct"] if self.structs else ["unit", "int"])
            if k == "unit":
                payload = None
            elif k == "int":
                payload = ("int", r.choice(["i64", "i64", "u8", "i32"]))
            else:
                s = r.choice(sorted(self.structs))
                it.deps.add(s)
                payload = ("named", s)
            disc = discs[i] if "enum_discriminants" in self.f and r.random() < 0.5 else None
            if disc is not None and "alias_hops" in self.f and i == 0 and r.random() < 0.6:
                # the discriminant is a (typed, small) const global: a compile-time-value context
                dc = self.fresh("dc")
                dit = Item(dc, "small_const")
                dv = disc
                dit.render = lambda ref, dc=dc, dv=dv: "%s : u8 : %d;" % (dc, dv)
                dit.uses = lambda ref, tmp, dc=dc: ["emit(i64.(%s));" % ref(dc)]
                self.p.add(dit)
                it.deps.add(dc)
                disc = ("const", dc)
            variants.append(("V%d" % i, payload, disc))
        self.enums[name] = variants

        def render(ref):
            parts = []
            for vn, payload, disc in variants:
                s = vn
                if payload is not None:
                    s += ": " + self.type_text(payload, ref)
                if isinstance(disc, tuple):
                    s += " | %s" % ref(disc[1])
                elif disc is not None:
                    s += " | %d" % disc
                parts.append(s)
            return "%s :: enum { %s };" % (name, ", ".join(parts))

        it.render = render
        self.p.add(it)

        # its scoring function: a function global that switches over the enum
        fname = self.fresh("score")
        fit = Item(fname, "fn_enum")
        fit.is_function = True
        fit.deps.add(name)
        for vn, payload, disc in variants:
            if payload is not None and payload[0] == "named":
                fit.deps.add(payload[1])
                # the struct's own field types (distinct / nested) are reached through casts
                fit.deps |= self.p.by_name[payload[1]].deps

        def frender(ref):
            arms = []
            for i, (vn, payload, disc) in enumerate(variants):
                if payload is None:
                    arms.append(".%s => i64.(%d)," % (vn, 100 + i))
                else:
                    arms.append(".%s => %s," % (
                        vn, self.digest_text(payload, ref, "%s.(v)" % self.type_text(payload, ref))))
            return "%s :: (e: %s) -> i64 {\n    switch v in e {\n%s    }\n}" % (
                fname, ref(name), "".join("        %s\n" % a for a in arms))

        fit.render = frender
        seed = r.randint(1, 20)

        def uses(ref, tmp):
            out = []
            for vn, payload, disc in variants:
                if payload is None:
                    out.append("emit(%s(%s.%s));" % (ref(fname), ref(name), vn))
                elif payload[0] == "int":
                    out.append("emit(%s(%s.%s.(%s)));" % (
                        ref(fname), ref(name), vn, self.value_text(payload, ref, str(seed))))
                else:
                    out.append("emit(%s(%s.%s.(%s)));" % (
                        ref(fname), ref(name), vn, self.value_text(payload, ref, str(seed))))
            return out

        fit.uses = uses
        self.p.add(fit)
        self.enum_score[name] = fname

    def mk_fn(self):
        name = self.fresh("f")
        it = Item(name, "fn")
        it.is_function = True
        r = self.rnd
        if False:
            pass
        elif "recursion" in self.f and r.random() < 0.35:
            it.recursive = True
            base = self.lit(1, 9)
            step = self.iexpr(it, "a", depth=1)
            d = r.choice([1, 1, 2])
            op = r.choice(["+", "*", "-"])
            it.render = lambda ref: (
                "%s :: (a: i64) -> i64 {\n    if a <= 0 { %s } else { (%s %s %s(a - %d)) %% 997 }\n}"
                % (name, base, step(ref), op, name, d))
        else:
            body = self.iexpr(it, "a", depth=2)
            local_ct = None
            if "local_comptime" in self.f and self.int_consts and r.random() < 0.3:
                c = r.choice(self.int_consts)
                it.deps.add(c)
                local_ct = c
            if local_ct:
                it.render = lambda ref: (
                    "%s :: (a: i64) -> i64 {\n    k :: comptime { %s * 2 };\n    (%s + k) %% 997\n}"
                    % (name, ref(local_ct), body(ref)))
            else:
                it.render = lambda ref: "%s :: (a: i64) -> i64 {\n    (%s) %% 997\n}" % (
                    name, body(ref))
        arg = r.randint(0, 6)
        it.uses = lambda ref, tmp: ["emit(%s(%d));" % (ref(name), arg)]
        self.p.add(it)
        self.int_fns.append(name)

    def mk_local_ct_fn(self):
        """a recursive function that, after its own recursive call, uses comptime blocks calling
        another (preferably recursive) function: as a constant, as an array size, as a type"""
        r = self.rnd
        if not self.int_fns:
            self.f.add("recursion")
            self.mk_fn()
        name = self.fresh("f")
        it = Item(name, "fn")
        it.is_function = True
        it.recursive = True
        base = self.lit(1, 9)
        others = [f for f in self.int_fns if self.p.by_name[f].recursive] or self.int_fns
        other = r.choice(others)
        it.deps.add(other)
        a1, a2, a3 = self.lit(0, 5), self.lit(0, 5), self.lit(0, 5)
        shape = r.sample(["const", "size", "type"], r.randint(1, 3))

        def render(ref, name=name, base=base, other=other, shape=tuple(shape)):
            body = ["rest := %s(a - 1);" % name]
            terms = ["rest"]
            if "const" in shape:
                body.append("k :: comptime { %s(%s) };" % (ref(other), a1))
                terms.append("k")
            if "size" in shape:
                body.append("buf : [comptime { usize.((%s(%s) %% 4 + 4) %% 4 + 1) }]i64;" % (ref(other), a2))
                terms.append("i64.(buf.len)")
            if "type" in shape:
                body.append("x : comptime { if %s(%s) > 5 { i64 } else { i32 } } = 7;" % (ref(other), a3))
                terms.append("i64.(x)")
            return ("%s :: (a: i64) -> i64 {\n    if a <= 0 { %s } else {\n%s        (%s) %% 997\n    }\n}"
                    % (name, base, "".join("        %s\n" % b for b in body), " + ".join(terms)))

        it.render = render
        arg = r.randint(0, 4)
        it.uses = lambda ref, tmp: ["emit(%s(%d));" % (ref(name), arg)]
        self.p.add(it)
        self.int_fns.append(name)
        self.local_ct_fns = getattr(self, "local_ct_fns", 0) + 1

    def mk_mutual(self):
        """a group of 2 or 3 mutually recursive functions"""
        r = self.rnd
        k = r.choice([2, 2, 3])
        names = [self.fresh("r") for _ in range(k)]
        items = []
        for i, name in enumerate(names):
            it = Item(name, "fn")
            it.is_function = True
            it.recursive = True
            nxt = names[(i + 1) % k]
            it.deps.add(nxt)
            extra = None
            if k == 3 and r.random() < 0.5:
                extra = names[(i + 2) % k]
                it.deps.add(extra)
            base = self.lit(1, 9)
            step = self.iexpr(it, "a", depth=1, exclude=names)
            op = r.choice(["+", "-", "*"])

            def render(ref, name=name, nxt=nxt, extra=extra, base=base, step=step, op=op):
                call = "%s(a - 1)" % ref(nxt)
                if extra:
                    call = "(%s + %s(a - 2))" % (call, ref(extra))
                return ("%s :: (a: i64) -> i64 {\n    if a <= 0 { %s } else { (%s %s %s) %% 997 }\n}"
                        % (name, base, step(ref), op, call))

            it.render = render
            arg = r.randint(0, 5)
            it.uses = (lambda ref, tmp, name=name, arg=arg: ["emit(%s(%d));" % (ref(name), arg)])
            items.append(it)
        for it in items:
            self.p.add(it)
        # only now may other items call them (the group members must not call each other through
        # `iexpr`, which would make the recursion unguarded)
        self.int_fns.extend(names)

    def mk_struct_fn(self):
        if not self.structs:
            return self.mk_struct()
        r = self.rnd
        s = r.choice(sorted(self.structs))
        td = ("named", s)
        if r.random() < 0.5 or not self.struct_makers:
            name = self.fresh("mk")
            it = Item(name, "fn_mk")
            it.is_function = True
            it.deps.add(s)
            it.deps |= self.p.by_name[s].deps
            seed = self.iexpr(it, "a", depth=1)
            it.render = lambda ref: "%s :: (a: i64) -> %s {\n    %s\n}" % (
                name, ref(s), self.value_text(td, ref, "(%s) %% 97" % seed(ref)))
            arg = r.randint(0, 6)

            def uses(ref, tmp):
                v = tmp("m")
                return ["%s := %s(%d);" % (v, ref(name), arg),
                        "emit(%s);" % self.digest_text(td, ref, v)]

            it.uses = uses
            self.p.add(it)
            self.struct_makers[name] = s
        else:
            name = self.fresh("tk")
            it = Item(name, "fn_tk")
            it.is_function = True
            it.deps.add(s)
            it.deps |= self.p.by_name[s].deps
            it.render = lambda ref: "%s :: (s: %s) -> i64 {\n    %s %% 997\n}" % (
                name, ref(s), self.digest_text(td, ref, "s"))
            seed = r.randint(1, 30)
            it.uses = lambda ref, tmp: ["emit(%s(%s));" % (
                ref(name), self.value_text(td, ref, str(seed)))]
            self.p.add(it)
            self.struct_takers[name] = s

    def mk_comptime_int(self):
        name = self.fresh("k")
        it = Item(name, "comptime")
        e = self.iexpr(it, None, depth=2)
        if self.int_fns and not (it.deps & set(self.int_fns)):
            fn = self.rnd.choice(self.int_fns)
            it.deps.add(fn)
            a = self.lit(0, 5)
            e0 = e
            e = lambda ref: "(%s + %s(%s))" % (e0(ref), ref(fn), a)
        typed = self.rnd.random() < 0.5
        if "comptime_locals" in self.f and self.rnd.random() < 0.6:
            # locals inside the block; `y` reads another global (preferably a comptime one)
            others = [c for c in self.int_consts if self.p.by_name[c].kind == "comptime"] or self.int_consts
            lv = self.lit(1, 9)
            if others:
                o = self.rnd.choice(others)
                it.deps.add(o)
                it.render = lambda ref: "%s :: comptime { x := %s; y := %s; t := (%s) %% 997; i64.((x + y + t) %% 997) };" % (
                    name, lv, ref(o), e(ref))
            else:
                it.render = lambda ref: "%s :: comptime { x := %s; t := (%s) %% 997; i64.((x + t) %% 997) };" % (
                    name, lv, e(ref))
        elif typed:
            it.render = lambda ref: "%s : i64 : comptime { (%s) %% 997 };" % (name, e(ref))
        else:
            it.render = lambda ref: "%s :: comptime { i64.((%s) %% 997) };" % (name, e(ref))
        it.uses = lambda ref, tmp: ["emit(%s);" % ref(name)]
        self.p.add(it)
        self.int_consts.append(name)

    def mk_comptime_struct(self):
        if not self.struct_makers:
            return self.mk_struct_fn()
        name = self.fresh("p")
        it = Item(name, "comptime_struct")
        fn = self.rnd.choice(sorted(self.struct_makers))
        s = self.struct_makers[fn]
        it.deps.add(fn)
        it.deps.add(s)
        arg = self.lit(0, 6)
        ann = None
        if "typed_user_globals" in self.f and self.rnd.random() < 0.6:
            aliases = [a for a, t in sorted(self.aliases.items()) if t == s]
            ann = self.rnd.choice(aliases + [s])
            it.deps.add(ann)
        if ann:
            it.render = lambda ref: "%s : %s : comptime { %s(%s) };" % (name, ref(ann), ref(fn), arg)
        else:
            it.render = lambda ref: "%s :: comptime { %s(%s) };" % (name, ref(fn), arg)
        self.struct_globals[name] = s
        td = ("named", s)

        def uses(ref, tmp):
            v = tmp("q")
            return ["%s := %s;" % (v, ref(name)),
                    "emit(%s);" % self.digest_text(td, ref, v)]

        it.uses = uses
        self.p.add(it)

    def mk_generic_type(self):
        name = self.fresh("g")
        it = Item(name, "generic")
        it.is_function = True
        op1, op2 = self.rnd.choice(["+", "*", "-"]), self.rnd.choice(["+", "*"])
        it.render = lambda ref: "%s :: (comptime T: type, a: T, b: T) -> T {\n    a %s b %s a\n}" % (
            name, op1, op2)
        a, b = self.rnd.randint(1, 9), self.rnd.randint(1, 9)
        it.uses = lambda ref, tmp: ["emit(%s(i64, %d, %d));" % (ref(name), a, b),
                                    "emit(i64.(%s(i32, %d, %d)));" % (ref(name), b, a)]
        self.p.add(it)
        self.generic_type_fns.append(name)

    def mk_generic_int(self):
        name = self.fresh("h")
        it = Item(name, "generic")
        it.is_function = True
        body = self.iexpr(it, "a", depth=1)
        it.render = lambda ref: "%s :: (comptime k: i64, a: i64) -> i64 {\n    ((%s) * k + a) %% 997\n}" % (
            name, body(ref))
        a = self.rnd.randint(0, 6)
        kk = self.rnd.randint(1, 6)
        it.uses = lambda ref, tmp: ["emit(%s(%d, %d));" % (ref(name), kk, a)]
        self.p.add(it)
        self.generic_int_fns.append(name)

    def mk_fn_value(self):
        if not self.int_fns:
            return self.mk_fn()
        name = self.fresh("v")
        it = Item(name, "fn_value")
        fn = self.rnd.choice(self.int_fns)
        it.deps.add(fn)
        it.render = lambda ref: "%s :: %s;" % (name, ref(fn))
        a = self.rnd.randint(0, 5)
        it.uses = lambda ref, tmp: ["emit(%s(%d));" % (ref(name), a)]
        self.p.add(it)

    def mk_global_array(self):
        name = self.fresh("arr")
        it = Item(name, "comptime_array")
        n = self.rnd.randint(2, 4)
        elems = [self.iexpr(it, None, depth=1) for _ in range(n)]
        it.render = lambda ref: "%s :: comptime { i64.[%s] };" % (
            name, ", ".join("(%s) %% 997" % e(ref) for e in elems))
        i = self.rnd.randrange(n)
        it.uses = lambda ref, tmp: ["emit(%s[%d] + %s[0]);" % (ref(name), i, ref(name))]
        self.p.add(it)
        self.global_arrays = getattr(self, "global_arrays", []) + [name]

    def mk_value_alias(self):
        if not self.int_consts:
            return self.mk_const()
        name = self.fresh("w")
        it = Item(name, "value_alias")
        c = self.rnd.choice(self.int_consts)
        it.deps.add(c)
        it.render = lambda ref: "%s :: %s;" % (name, ref(c))
        it.uses = lambda ref, tmp: ["emit(%s);" % ref(name)]
        self.p.add(it)
        self.int_consts.append(name)

    def mk_comptime_enum(self):
        cands = [e for e in sorted(self.enums)
                 if e in self.enum_score
                 and any(p is not None and p[0] == "int" for _, p, _ in self.enums[e])]
        if not cands:
            return self.mk_enum() if "enums" in self.f else self.mk_const()
        e = self.rnd.choice(cands)
        name = self.fresh("ev")
        it = Item(name, "comptime_enum")
        it.deps.add(e)
        score = self.enum_score[e]
        vn, payload, _ = self.rnd.choice([v for v in self.enums[e] if v[1] is not None and v[1][0] == "int"])
        seed = self.iexpr(it, None, depth=1)
        it.render = lambda ref: "%s :: comptime { %s.%s.(%s) };" % (
            name, ref(e), vn, self.value_text(payload, ref, "(%s) %% 97" % seed(ref)))

        def uses(ref, tmp):
            return ["emit(%s(%s));" % (ref(score), ref(name))]

        it.deps.add(score)
        it.uses = uses
        self.p.add(it)

    def mk_higher_order(self):
        if not self.int_fns:
            return self.mk_fn()
        name = self.fresh("ap")
        it = Item(name, "fn_ho")
        it.is_function = True
        extra = self.iexpr(it, "a", depth=1)
        it.render = lambda ref: "%s :: (fnv: (a: i64) -> i64, a: i64) -> i64 {\n    (fnv(a %% 4) + %s) %% 997\n}" % (
            name, extra(ref))
        fn = self.rnd.choice(self.int_fns)
        a = self.rnd.randint(0, 6)
        # the function passed is named at the use site (main), not in the definition
        it.uses = lambda ref, tmp: ["emit(%s(%s, %d));" % (ref(name), ref(fn), a)]
        self.p.add(it)

    def mk_type_fn(self):
        name = self.fresh("Vec")
        it = Item(name, "type_fn")
        it.is_function = True
        it.render = lambda ref: ("%s :: (comptime T: type, comptime n: usize) -> type {\n"
                                 "    struct { data: [n]T, len: i64 }\n}") % name
        k = self.rnd.randint(1, 3)
        v0 = self.rnd.randint(1, 50)

        def uses(ref, tmp):
            t = tmp("VT")
            v = tmp("vv")
            elems = ", ".join(str(v0 + i) for i in range(k))
            return ["%s :: comptime %s(i64, %d);" % (t, ref(name), k),
                    "%s : %s = %s.{ data = i64.[%s], len = %d };" % (v, t, t, elems, k),
                    "emit(%s.data[%d] + %s.len);" % (v, k - 1, v)]

        it.uses = uses
        self.p.add(it)

    def mk_loop_fn(self):
        name = self.fresh("lp")
        it = Item(name, "fn")
        it.is_function = True
        step = self.iexpr(it, "i", depth=1)
        it.render = lambda ref: (
            "%s :: (a: i64) -> i64 {\n    acc : i64 = 0;\n    i : i64 = 0;\n    while i < a %% 6 {\n"
            "        acc = (acc + %s) %% 997;\n        i += 1;\n    }\n    acc\n}" % (name, step(ref)))
        arg = self.rnd.randint(0, 9)
        it.uses = lambda ref, tmp: ["emit(%s(%d));" % (ref(name), arg)]
        self.p.add(it)
        self.int_fns.append(name)

    def mk_typed_literal(self):
        """q : S : comptime { S.{ .. } };   or   d : D : comptime { D.(..) };"""
        r = self.rnd
        if self.distincts and (not self.structs or r.random() < 0.4):
            dn = r.choice(sorted(self.distincts))
            name = self.fresh("dg")
            it = Item(name, "typed_distinct")
            it.deps.add(dn)
            seed = self.iexpr(it, None, depth=1, allow_calls=False)
            td = ("distinct", dn)
            it.render = lambda ref: "%s : %s : comptime { %s };" % (
                name, ref(dn), self.value_text(td, ref, "(%s) %% 90" % seed(ref)))
            it.uses = lambda ref, tmp: ["emit(i64.(%s));" % ref(name)]
            self.p.add(it)
            self.distinct_globals[name] = dn
            return
        if not self.structs:
            return self.mk_struct()
        sn = r.choice(sorted(self.structs))
        name = self.fresh("q")
        it = Item(name, "typed_struct")
        it.deps.add(sn)
        it.deps |= self.p.by_name[sn].deps
        aliases = [a for a, t in sorted(self.aliases.items()) if t == sn]
        ann = r.choice(aliases + [sn])
        it.deps.add(ann)
        seed = self.iexpr(it, None, depth=1, allow_calls=False)
        td = ("named", sn)
        it.render = lambda ref: "%s : %s : comptime { %s };" % (
            name, ref(ann), self.value_text(td, ref, "((%s) %% 90)" % seed(ref)))

        def uses(ref, tmp):
            v = tmp("tq")
            return ["%s := %s;" % (v, ref(name)), "emit(%s);" % self.digest_text(td, ref, v)]

        it.uses = uses
        self.p.add(it)
        self.struct_globals[name] = sn

    def mk_global_reader(self):
        r = self.rnd
        if not self.struct_globals and not self.distinct_globals:
            return self.mk_comptime_struct() if "comptime_struct" in self.f and self.structs else self.mk_const()
        if self.struct_globals and (not self.distinct_globals or r.random() < 0.7):
            g = r.choice(sorted(self.struct_globals))
            sn = self.struct_globals[g]
            if r.random() < 0.3:
                name = self.fresh("wa")
                it = Item(name, "struct_value_alias")
                it.deps.add(g)
                it.render = lambda ref: "%s :: %s;" % (name, ref(g))
                td = ("named", sn)

                def uses(ref, tmp):
                    v = tmp("wv")
                    return ["%s := %s;" % (v, ref(name)), "emit(%s);" % self.digest_text(td, ref, v)]

                it.uses = uses
                self.p.add(it)
                self.struct_globals[name] = sn
                return
            name = self.fresh("rd")
            it = Item(name, "reader")
            it.deps.add(g)
            it.deps.add(sn)
            td = ("named", sn)
            extra = self.iexpr(it, None, depth=1)
            it.render = lambda ref: "%s :: comptime { i64.((%s + %s) %% 997) };" % (
                name, self.digest_text(td, ref, ref(g)), extra(ref))
        else:
            g = r.choice(sorted(self.distinct_globals))
            name = self.fresh("rd")
            it = Item(name, "reader")
            it.deps.add(g)
            it.render = lambda ref: "%s : i64 : comptime { i64.(%s) + 1 };" % (name, ref(g))
        it.uses = lambda ref, tmp: ["emit(%s);" % ref(name)]
        self.p.add(it)
        self.int_consts.append(name)

    def mk_struct_cast(self):
        """S2 has S's member names in another order and wider integer types; cv casts S -> S2"""
        r = self.rnd
        cands = [sn for sn, fields in sorted(self.structs.items())
                 if len(fields) >= 2 and all(ft[0] == "int" for _, ft in fields)]
        if not cands:
            cands = [self._plain_int_struct()]
        src = r.choice(cands)
        widen = {"u8": ["u8", "u16", "i64", "u64"], "u16": ["u16", "i64", "u64"], "i32": ["i32", "i64"],
                 "u64": ["u64"], "i64": ["i64"]}
        dst_fields = [(fn, ("int", r.choice(widen[ft[1]]))) for fn, ft in self.structs[src]]
        for _ in range(4):
            r.shuffle(dst_fields)
            if [f for f, _ in dst_fields] != [f for f, _ in self.structs[src]]:
                break
        dst = self.fresh("S")
        it = Item(dst, "struct")
        self.structs[dst] = dst_fields
        it.render = lambda ref: "%s :: struct { %s };" % (
            dst, ", ".join("%s: %s" % (fn, ft[1]) for fn, ft in dst_fields))
        self.p.add(it)
        fname = self.fresh("cv")
        fit = Item(fname, "fn_cast")
        fit.is_function = True
        fit.deps |= {src, dst}
        fit.render = lambda ref: "%s :: (s: %s) -> %s {\n    %s.(s)\n}" % (fname, ref(src), ref(dst), ref(dst))
        seed = r.randint(1, 20)
        tds, tdd = ("named", src), ("named", dst)

        def uses(ref, tmp):
            v = tmp("cz")
            return ["%s := %s(%s);" % (v, ref(fname), self.value_text(tds, ref, str(seed))),
                    "emit(%s);" % self.digest_text(tdd, ref, v)]

        fit.uses = uses
        self.p.add(fit)

    def _plain_int_struct(self):
        r = self.rnd
        sname = self.fresh("S")
        it = Item(sname, "struct")
        fields = [("m%d" % i, ("int", r.choice(["u8", "u16", "i32", "i64"]))) for i in range(r.randint(2, 5))]
        self.structs[sname] = fields
        td = ("named", sname)
        it.render = lambda ref: "%s :: struct { %s };" % (
            sname, ", ".join("%s: %s" % (fn, ft[1]) for fn, ft in fields))
        seed = r.randint(1, 20)

        def uses(ref, tmp):
            v = tmp("s")
            return ["%s : %s = %s;" % (v, ref(sname), self.value_text(td, ref, str(seed))),
                    "emit(%s);" % self.digest_text(td, ref, v)]

        it.uses = uses
        self.p.add(it)
        return sname

    def mk_generic_twins(self):
        r = self.rnd
        if not self.generic_type_fns:
            self.mk_generic_type()
        g = r.choice(self.generic_type_fns)
        tys = r.sample(["u8", "i32", "i64", "u16"], r.randint(2, 3))
        k1, k2 = r.randint(90, 120), r.randint(2, 5)
        group = []
        for t in tys:
            name = self.fresh("tw")
            it = Item(name, "fn")
            it.is_function = True
            it.deps.add(g)
            it.render = (lambda ref, name=name, t=t: "%s :: (a: i64) -> i64 {\n    i64.(%s(%s, %s.(a %% 50 + %d), %s.(%d)))\n}"
                         % (name, ref(g), t, t, k1, t, k2))
            arg = r.randint(0, 49)
            it.uses = (lambda ref, tmp, name=name, arg=arg: ["emit(%s(%d));" % (ref(name), arg)])
            self.p.add(it)
            group.append(name)
        self.p.twins.append(group)
        self.p.twin_callee = getattr(self.p, "twin_callee", {})
        for n in group:
            self.p.twin_callee[n] = g

    def pick_same_names(self):
        """give two items of the same sort one public name and pin them to different files"""
        r = self.rnd
        sorts = {}
        for it in self.p.items:
            if it.kind in ("fn", "const", "struct", "comptime", "generic") and it.name not in self.p.pins:
                # twins and recursion groups keep their own names (their bodies name each other)
                if any(it.name in g for g in self.p.twins):
                    continue
                sorts.setdefault(it.kind, []).append(it.name)
        groups = [v for v in sorts.values() if len(v) >= 2]
        r.shuffle(groups)
        nfile = 1
        for gi, names in enumerate(groups[:2]):
            a, b = r.sample(names, 2)
            # an item must not refer to its namesake (it could only name it through an alias, which
            # is fine) - but then both would have to be in the same file for a local reference
            if b in self.p.closure(a) or a in self.p.closure(b):
                continue
            pub = "shared%d" % gi
            self.p.public[a] = pub
            self.p.public[b] = pub
            self.p.pins[a] = r.choice([0, 1])
            self.p.pins[b] = 2 if self.p.pins[a] == 1 or r.random() < 0.5 else 1
            nfile += 1

    def mk_generic_nested(self):
        """a generic function with a local helper whose header is written with the comptime
        parameter; one caller per type argument. The type arguments of a pair share their machine
        type, so that a helper typed for the wrong instantiation still compiles - and compares
        (or divides) with the wrong signedness."""
        r = self.rnd
        name = self.fresh("nh")
        it = Item(name, "generic")
        it.is_function = True
        helper = r.choice(["named", "named", "lambda"])
        body = r.choice(["if x > y { x } else { y }", "if x < y { x } else { y }", "x / y"])
        if helper == "named":
            decl = "pick :: (x: T, y: T) -> T { %s };" % body
        else:
            decl = "pick := (x: T, y: T) -> T { %s };" % body
        it.render = lambda ref: "%s :: (comptime T: type, a: T, b: T) -> T {\n    %s\n    pick(a, b)\n}" % (name, decl)
        it.uses = lambda ref, tmp: []
        self.p.add(it)
        signed, unsigned, big = r.choice([("i64", "u64", "18446744073709551000"),
                                          ("i32", "u32", "4294967000"),
                                          ("i16", "u16", "65000")])
        small = r.randint(2, 7)
        group = []
        for t in r.sample([signed, unsigned], 2):
            cname = self.fresh("nc")
            c = Item(cname, "fn")
            c.is_function = True
            c.deps.add(name)
            if t == signed:
                c.render = (lambda ref, cname=cname, t=t: "%s :: (a: i64) -> i64 {\n    lo : %s = 0 - %s.(a %% 50) - 1;\n    i64.(%s(%s, lo, %d))\n}"
                            % (cname, t, t, ref(name), t, small))
            else:
                c.render = (lambda ref, cname=cname, t=t: "%s :: (a: i64) -> i64 {\n    big : %s = %s;\n    i64.(%s(%s, big + %s.(a %% 50), %d) %% 1000)\n}"
                            % (cname, t, big, ref(name), t, t, small))
            arg = r.randint(0, 49)
            c.uses = (lambda ref, tmp, cname=cname, arg=arg: ["emit(%s(%d));" % (ref(cname), arg)])
            self.p.add(c)
            group.append(cname)
        self.p.twins.append(group)
        self.p.twin_callee = getattr(self.p, "twin_callee", {})
        for n in group:
            self.p.twin_callee[n] = name

    def mk_generic_dependent(self):
        r = self.rnd
        name = self.fresh("pk")
        it = Item(name, "generic")
        it.is_function = True
        op = r.choice(["+", "*", "-"])
        it.render = lambda ref: "%s :: (comptime T: type, comptime v: T, x: T) -> T {\n    x %s v\n}" % (name, op)
        a, b = r.randint(1, 9), r.randint(1, 9)
        it.uses = lambda ref, tmp: ["emit(%s(i64, %d, %d));" % (ref(name), a, b),
                                    "emit(i64.(%s(i32, %d, %d)));" % (ref(name), b, a)]
        self.p.add(it)
        # non-generic callers, so that the calls can sit in other files than the generic function.
        # Each uses another T, and arguments that mean something else under another caller's T
        # (a float literal, an integer that does not fit the narrower type): whatever is
        # remembered from one instantiation must not leak into the next.
        shapes = [("i64", lambda k: str(100000 + k), "a %% 50"),
                  ("f64", lambda k: "%d.5" % k, "f64.(a %% 50) + 0.25"),
                  ("u8", lambda k: str(k + 1), "u8.(a %% 50)"),
                  ("i32", lambda k: str(70000 + k), "i32.(a %% 50)"),
                  ("f32", lambda k: "%d.25" % k, "f32.(a %% 50)")]
        if r.random() < 0.5:
            # one caller that instantiates the function twice, with different T
            (t1, kv1, xv1), (t2, kv2, xv2) = r.sample(shapes, 2)
            cname = self.fresh("cq")
            cit = Item(cname, "fn")
            cit.is_function = True
            cit.deps.add(name)
            k1, k2 = r.randint(1, 9), r.randint(1, 9)

            def render2(ref, cname=cname, t1=t1, t2=t2, a1=kv1(k1), a2=kv2(k2),
                        x1=xv1.replace("%%", "%"), x2=xv2.replace("%%", "%")):
                def as_int(t, e):
                    return "i64.(%s * 4.0)" % e if t.startswith("f") else "i64.(%s)" % e
                return ("%s :: (a: i64) -> i64 {\n    p := %s;\n    q := %s;\n    (p + q) %% 997\n}" % (
                    cname, as_int(t1, "%s(%s, %s, %s)" % (ref(name), t1, a1, x1)),
                    as_int(t2, "%s(%s, %s, %s)" % (ref(name), t2, a2, x2))))

            cit.render = render2
            arg = r.randint(0, 40)
            cit.uses = (lambda ref, tmp, cname=cname, arg=arg: ["emit(%s(%d));" % (ref(cname), arg)])
            self.p.add(cit)
            self.int_fns.append(cname)
        for t, kv, xv in r.sample(shapes, r.randint(1, 3)):
            cname = self.fresh("cp")
            cit = Item(cname, "fn")
            cit.is_function = True
            cit.deps.add(name)
            k = r.randint(1, 9)
            body = "@PK@(%s, %s, %s)" % (t, kv(k), xv.replace("%%", "%"))
            if t.startswith("f"):
                body = "i64.(%s * 4.0)" % body
            elif t != "i64":
                body = "i64.(%s)" % body
            cit.render = (lambda ref, cname=cname, body=body:
                          "%s :: (a: i64) -> i64 {\n    %s\n}" % (cname, body.replace("@PK@", ref(name))))
            arg = r.randint(0, 40)
            cit.uses = (lambda ref, tmp, cname=cname, arg=arg: ["emit(%s(%d));" % (ref(cname), arg)])
            self.p.add(cit)
            self.int_fns.append(cname)

    # --- rung 4 ------------------------------------------------------------------------
    def _int_anchor(self, item):
        """callable(ref) -> an i64 expression naming some earlier const if there is one"""
        if self.int_consts and self.rnd.random() < 0.8:
            c = self.rnd.choice(self.int_consts)
            item.deps.add(c)
            return lambda ref: ref(c)
        v = self.lit(1, 9)
        return lambda ref: v

    def mk_float(self):
        r = self.rnd
        ft = r.choice(["f64", "f64", "f32"])
        if r.random() < 0.5 or not getattr(self, "float_consts", None):
            name = self.fresh("fl")
            it = Item(name, "float_const")
            a = self._int_anchor(it)
            m = r.choice(["1.5", "0.25", "2.75", "3.125"])
            # the i64 cast keeps an untyped literal from being inferred as a float operand of `%`
            it.render = lambda ref: "%s :: comptime { %s.(i64.(%s) %% 50) * %s + 0.5 };" % (name, ft, a(ref), m)
            it.uses = lambda ref, tmp: ["emit(i64.(%s * 16.0));" % ref(name)]
            self.p.add(it)
            self.float_consts = getattr(self, "float_consts", []) + [(name, ft)]
            return
        name = self.fresh("ff")
        it = Item(name, "fn")
        it.is_function = True
        c, ft = r.choice(self.float_consts)
        it.deps.add(c)
        extra = self.iexpr(it, "a", depth=1)
        m = r.choice(["1.25", "0.5", "2.0"])
        it.render = lambda ref: (
            "%s :: (a: i64) -> i64 {\n    x := %s.(a %% 7) * %s + %s;\n    (i64.(x * 8.0) + %s) %% 997\n}"
            % (name, ft, m, ref(c), extra(ref)))
        arg = r.randint(0, 9)
        it.uses = lambda ref, tmp: ["emit(%s(%d));" % (ref(name), arg)]
        self.p.add(it)
        self.int_fns.append(name)

    def mk_optional(self):
        r = self.rnd
        ops = getattr(self, "opt_fns", [])
        if not ops or r.random() < 0.4:
            name = self.fresh("op")
            it = Item(name, "fn_opt")
            it.is_function = True
            body = self.iexpr(it, "a", depth=1)
            m = r.choice([2, 3, 4])
            it.render = lambda ref: (
                "%s :: (a: i64) -> ?i64 {\n    if a %% %d == 0 { return nil; }\n    res := (%s) %% 997;\n    res\n}"
                % (name, m, body(ref)))
            a1, a2 = r.randint(0, 8), r.randint(0, 8)

            def uses(ref, tmp, name=name, a1=a1, a2=a2):
                return ["switch v in %s(%d) { i64 => emit(v), nil => emit(0 - 1), }" % (ref(name), a)
                        for a in (a1, a2)]

            it.uses = uses
            self.p.add(it)
            self.opt_fns = ops + [name]
            return
        src = r.choice(ops)
        if r.random() < 0.5:
            # `.try` chain: another optional-returning function
            name = self.fresh("oc")
            it = Item(name, "fn_opt")
            it.is_function = True
            it.deps.add(src)
            extra = self.iexpr(it, "a", depth=1)
            it.render = lambda ref: (
                "%s :: (a: i64) -> ?i64 {\n    x := %s(a + 1).try;\n    (x + %s) %% 997\n}"
                % (name, ref(src), extra(ref)))
            a1 = r.randint(0, 8)
            it.uses = lambda ref, tmp: [
                "switch v in %s(%d) { i64 => emit(v), nil => emit(0 - 2), }" % (ref(name), a1)]
            self.p.add(it)
            self.opt_fns = ops + [name]
        else:
            # an ordinary i64 function on top, so that everything else can call it
            name = self.fresh("ou")
            it = Item(name, "fn")
            it.is_function = True
            it.deps.add(src)
            how = r.choice(["switch", "unwrap"])
            if how == "switch":
                it.render = lambda ref: (
                    "%s :: (a: i64) -> i64 {\n    switch v in %s(a %% 9) {\n        i64 => v %% 997,\n"
                    "        nil => 0 - 1,\n    }\n}" % (name, ref(src)))
            else:
                it.render = lambda ref: (
                    "%s :: (a: i64) -> i64 {\n    o := %s(a %% 9);\n    if #is_variant(o, i64) { #unwrap(o, i64) %% 997 }"
                    " else { 0 - 1 }\n}" % (name, ref(src)))
            arg = r.randint(0, 9)
            it.uses = lambda ref, tmp: ["emit(%s(%d));" % (ref(name), arg)]
            self.p.add(it)
            self.int_fns.append(name)

    def mk_error_union(self):
        r = self.rnd
        ers = getattr(self, "err_enums", {})
        efs = getattr(self, "err_fns", [])
        if not ers:
            name = self.fresh("Er")
            it = Item(name, "enum")
            pay2 = r.choice(["i32", "u16", "i64"])
            variants = [("Low", "u8"), ("Bad", pay2)]
            it.render = lambda ref: "%s :: enum { Low: u8, Bad: %s };" % (name, pay2)
            self.p.add(it)
            self.err_enums = {name: variants}
            return
        en = r.choice(sorted(ers))
        pay2 = ers[en][1][1]
        if not efs or r.random() < 0.35:
            name = self.fresh("eu")
            it = Item(name, "fn_err")
            it.is_function = True
            it.deps.add(en)
            body = self.iexpr(it, "a", depth=1)
            m1, m2 = r.sample([2, 3, 5, 7], 2)
            it.render = lambda ref: (
                "%s :: (a: i64) -> %s!i64 {\n    if a %% %d == 0 { return %s.Low.(u8.(a %% 200)); }\n"
                "    if a %% %d == 0 { return %s.Bad.(%s.(a %% 100 + 1)); }\n    res := (%s) %% 997;\n    res\n}"
                % (name, ref(en), m1, ref(en), m2, ref(en), pay2, body(ref)))
            self.p.add(it)
            self.err_fns = efs + [(name, en)]
            return
        src, en = r.choice(efs)
        pay2 = ers[en][1][1]
        if r.random() < 0.4:
            name = self.fresh("ec")
            it = Item(name, "fn_err")
            it.is_function = True
            it.deps |= {src, en}
            extra = self.iexpr(it, "a", depth=1)
            it.render = lambda ref: (
                "%s :: (a: i64) -> %s!i64 {\n    x := %s(a + 1).try;\n    (x * 3 + %s) %% 997\n}"
                % (name, ref(en), ref(src), extra(ref)))
            self.p.add(it)
            self.err_fns = efs + [(name, en)]
            return
        name = self.fresh("ew")
        it = Item(name, "fn")
        it.is_function = True
        it.deps |= {src, en}
        it.render = lambda ref: (
            "%s :: (a: i64) -> i64 {\n    switch v in %s(a %% 12) {\n        i64 => v %% 997,\n"
            "        %s => {\n            switch e in v {\n                .Low => 0 - 10 - i64.(u8.(e)),\n"
            "                .Bad => 0 - 500 - i64.(%s.(e)),\n            }\n        },\n    }\n}"
            % (name, ref(src), ref(en), pay2))
        args = r.sample(range(0, 12), 3)
        it.uses = lambda ref, tmp: ["emit(%s(%d));" % (ref(name), a) for a in args]
        self.p.add(it)
        self.int_fns.append(name)

    def _int_first_struct(self):
        cands = [sn for sn, fields in sorted(self.structs.items()) if fields and fields[0][1][0] == "int"]
        if cands:
            return self.rnd.choice(cands)
        return self._plain_int_struct()

    def mk_pointer_fns(self):
        r = self.rnd
        sn = self._int_first_struct()
        fields = self.structs[sn]
        f0, t0 = fields[0][0], fields[0][1][1]
        td = ("named", sn)
        bm = self.fresh("bm")
        bit = Item(bm, "fn_ptr")
        bit.is_function = True
        bit.deps.add(sn)
        bit.render = lambda ref: "%s :: (p: ^mut %s, d: i64) {\n    p.%s = p.%s + %s.(d %% 5);\n}" % (
            bm, ref(sn), f0, f0, t0)
        self.p.add(bit)
        rp = self.fresh("rp")
        rit = Item(rp, "fn_ptr")
        rit.is_function = True
        rit.deps.add(sn)
        rit.deps |= self.p.by_name[sn].deps
        rit.render = lambda ref: "%s :: (p: ^%s) -> i64 {\n    %s %% 997\n}" % (
            rp, ref(sn), self.digest_text(td, ref, "p"))
        self.p.add(rit)
        pw = self.fresh("pw")
        wit = Item(pw, "fn")
        wit.is_function = True
        wit.deps |= {sn, bm, rp}
        wit.deps |= self.p.by_name[sn].deps
        wit.render = lambda ref: (
            "%s :: (a: i64) -> i64 {\n    s := %s;\n    %s(^mut s, a);\n    q := ^s;\n    %s(q) + %s(^s)\n}"
            % (pw, self.value_text(td, ref, "(a % 40)"), ref(bm), ref(rp), ref(rp)))
        arg = r.randint(0, 30)
        wit.uses = lambda ref, tmp: ["emit(%s(%d));" % (ref(pw), arg)]
        self.p.add(wit)
        self.int_fns.append(pw)

    def mk_slice_fns(self):
        r = self.rnd
        sls = getattr(self, "slice_fns", [])
        if not sls:
            name = self.fresh("sl")
            it = Item(name, "fn_slice")
            it.is_function = True
            w = r.choice(["acc + s[i]", "acc * 3 + s[i]", "acc + s[i] * (i64.(i) + 1)"])
            it.render = lambda ref: (
                "%s :: (s: []i64) -> i64 {\n    i := 0;\n    acc : i64 = 0;\n    while i < s.len {\n"
                "        acc = (%s) %% 997;\n        i += 1;\n    }\n    acc\n}" % (name, w))
            arrs = list(getattr(self, "global_arrays", []))

            def uses(ref, tmp, name=name):
                out = ["emit(%s(i64.[4, 5, 6]));" % ref(name)]
                for a in getattr(self, "global_arrays", [])[:2]:
                    out.append("emit(%s(%s));" % (ref(name), ref(a)))
                return out

            it.uses = uses
            self.p.add(it)
            self.slice_fns = [name]
            return
        src = r.choice(sls)
        name = self.fresh("sw")
        it = Item(name, "fn")
        it.is_function = True
        it.deps.add(src)
        e1 = self.iexpr(it, "a", depth=1)
        e2 = self.iexpr(it, "a", depth=1)
        it.render = lambda ref: (
            "%s :: (a: i64) -> i64 {\n    arr := i64.[a %% 9, %s, %s];\n    sv : []i64 = arr;\n    %s(sv) + %s(arr)\n}"
            % (name, e1(ref), e2(ref), ref(src), ref(src)))
        arg = r.randint(0, 9)
        it.uses = lambda ref, tmp: ["emit(%s(%d));" % (ref(name), arg)]
        self.p.add(it)
        self.int_fns.append(name)

    def mk_defer_break(self):
        r = self.rnd
        name = self.fresh("db")
        it = Item(name, "fn")
        it.is_function = True
        c = self._int_anchor(it)
        e = self.iexpr(it, "a", depth=1)
        lim = r.randint(3, 30)
        it.render = lambda ref: (
            "%s :: (a: i64) -> i64 {\n    x := a %% 9;\n    p := ^mut x;\n    {\n"
            "        defer { p^ = p^ * 2; };\n        p^ = p^ + %s %% 11;\n    }\n"
            "    r := `blk: {\n        if x > %d { break `blk x * 3; }\n        x + %s\n    };\n    r %% 997\n}"
            % (name, c(ref), lim, e(ref)))
        arg = r.randint(0, 9)
        it.uses = lambda ref, tmp: ["emit(%s(%d));" % (ref(name), arg)]
        self.p.add(it)
        self.int_fns.append(name)

    def mk_lambda_fn(self):
        r = self.rnd
        name = self.fresh("lm")
        it = Item(name, "fn")
        it.is_function = True
        c = self._int_anchor(it)
        e = self.iexpr(it, "q", depth=1)
        shape = r.choice(["local", "nested", "both"])

        def render(ref):
            body = []
            terms = []
            if shape in ("local", "both"):
                body.append("fv := (q: i64) -> i64 { (q * 3 + %s) %% 997 };" % c(ref))
                terms.append("fv(a % 11)")
            if shape in ("nested", "both"):
                body.append("inner :: (q: i64) -> i64 { (%s) %% 997 };" % e(ref))
                terms.append("inner(a % 5)")
            return "%s :: (a: i64) -> i64 {\n%s    (%s) %% 997\n}" % (
                name, "".join("    %s\n" % b for b in body), " + ".join(terms))

        it.render = render
        arg = r.randint(0, 9)
        it.uses = lambda ref, tmp: ["emit(%s(%d));" % (ref(name), arg)]
        self.p.add(it)
        self.int_fns.append(name)

    def mk_type_block(self):
        r = self.rnd
        tbs = getattr(self, "type_blocks", [])
        if not tbs or r.random() < 0.4:
            name = self.fresh("Ty")
            it = Item(name, "type_block")
            c = self._int_anchor(it)
            t1, t2 = r.sample(["i32", "i64", "u16", "u64"], 2)
            it.render = lambda ref: "%s :: comptime { if (%s) %% 2 == 0 { %s } else { %s } };" % (
                name, c(ref), t1, t2)
            v = r.randint(1, 99)

            def uses(ref, tmp, name=name, v=v):
                x = tmp("ty")
                return ["%s : %s = %d;" % (x, ref(name), v), "emit(i64.(%s));" % x]

            it.uses = uses
            self.p.add(it)
            self.type_blocks = tbs + [name]
            return
        tb = r.choice(tbs)
        name = self.fresh("tf")
        it = Item(name, "fn")
        it.is_function = True
        it.deps.add(tb)
        e = self.iexpr(it, "a", depth=1)
        it.render = lambda ref: (
            "%s :: (a: i64) -> i64 {\n    y : %s = %s.(a %% 100);\n    (i64.(y) + %s) %% 997\n}"
            % (name, ref(tb), ref(tb), e(ref)))
        arg = r.randint(0, 9)
        it.uses = lambda ref, tmp: ["emit(%s(%d));" % (ref(name), arg)]
        self.p.add(it)
        self.int_fns.append(name)

    def mk_bool(self):
        r = self.rnd
        bs = getattr(self, "bool_consts", [])
        if not bs or r.random() < 0.4:
            name = self.fresh("bc")
            it = Item(name, "bool_const")
            c = self._int_anchor(it)
            k = r.randint(1, 30)
            typed = r.random() < 0.5
            if typed:
                it.render = lambda ref: "%s : bool : comptime { %s > %d };" % (name, c(ref), k)
            else:
                it.render = lambda ref: "%s :: comptime { %s > %d };" % (name, c(ref), k)
            it.uses = lambda ref, tmp: ["if %s { emit(1); } else { emit(0); }" % ref(name)]
            self.p.add(it)
            self.bool_consts = bs + [name]
            return
        b = r.choice(bs)
        name = self.fresh("bf")
        it = Item(name, "fn")
        it.is_function = True
        it.deps.add(b)
        e1 = self.iexpr(it, "a", depth=1)
        e2 = self.iexpr(it, "a", depth=1)
        it.render = lambda ref: (
            "%s :: (a: i64) -> i64 {\n    if %s && a %% 2 == 0 { (%s) %% 997 } else { (%s) %% 997 }\n}"
            % (name, ref(b), e1(ref), e2(ref)))
        arg = r.randint(0, 9)
        it.uses = lambda ref, tmp: ["emit(%s(%d));" % (ref(name), arg)]
        self.p.add(it)
        self.int_fns.append(name)

    def mk_struct_array(self):
        if not self.struct_makers:
            return self.mk_struct_fn() if self.structs else self.mk_struct()
        r = self.rnd
        fn = r.choice(sorted(self.struct_makers))
        sn = self.struct_makers[fn]
        name = self.fresh("sa")
        it = Item(name, "comptime_struct_array")
        it.deps |= {fn, sn}
        n = r.randint(2, 3)
        args = [self.lit(0, 9) for _ in range(n)]
        it.render = lambda ref: "%s :: comptime { %s.[%s] };" % (
            name, ref(sn), ", ".join("%s(%s)" % (ref(fn), a) for a in args))
        td = ("named", sn)
        i = r.randrange(n)

        def uses(ref, tmp):
            v = tmp("sav")
            return ["%s := %s[%d];" % (v, ref(name), i), "emit(%s);" % self.digest_text(td, ref, v)]

        it.uses = uses
        self.p.add(it)

    def mk_fn_member(self):
        if not self.int_fns:
            return self.mk_fn()
        r = self.rnd
        sn = self.fresh("FS")
        sit = Item(sn, "struct")
        sit.render = lambda ref: "%s :: struct { k: i64, fnm: (a: i64) -> i64 };" % sn
        self.p.add(sit)
        fn = r.choice(self.int_fns)
        # (a struct with a function member *returned by value* from a function is miscompiled by
        # the pinned tree - "no class" in the C ABI classifier, the program dies with SIGSEGV in
        # every order; other properties' territory - so the value is built and used locally, or
        # handed over by pointer)
        tk = self.fresh("uf")
        tit = Item(tk, "fn_ptr")
        tit.is_function = True
        tit.deps.add(sn)
        tit.render = lambda ref: "%s :: (p: ^%s, a: i64) -> i64 {\n    (p.fnm(a %% 6) + p.k) %% 997\n}" % (tk, ref(sn))
        self.p.add(tit)
        cf = self.fresh("cf")
        cit = Item(cf, "fn")
        cit.is_function = True
        cit.deps |= {sn, fn, tk}
        cit.render = lambda ref: (
            "%s :: (a: i64) -> i64 {\n    s := %s.{ k = a %% 5, fnm = %s };\n    (s.fnm(s.k) + %s(^s, a)) %% 997\n}"
            % (cf, ref(sn), ref(fn), ref(tk)))
        arg = r.randint(0, 9)
        cit.uses = lambda ref, tmp: ["emit(%s(%d));" % (ref(cf), arg)]
        self.p.add(cit)
        self.int_fns.append(cf)

    def mk_anon_literal(self):
        r = self.rnd
        cands = [sn for sn, fields in sorted(self.structs.items())
                 if all(ft[0] == "int" for _, ft in fields)]
        sn = r.choice(cands) if cands else self._plain_int_struct()
        fields = self.structs[sn]
        name = self.fresh("al")
        it = Item(name, "fn")
        it.is_function = True
        it.deps.add(sn)
        td = ("named", sn)

        def render(ref):
            parts = ["%s = %s" % (fn, self.value_text(ft, ref, "(a %% 30 + %d)" % i))
                     for i, (fn, ft) in enumerate(fields)]
            return "%s :: (a: i64) -> i64 {\n    s : %s = .{ %s };\n    %s %% 997\n}" % (
                name, ref(sn), ", ".join(parts), self.digest_text(td, ref, "s"))

        it.render = render
        arg = r.randint(0, 9)
        it.uses = lambda ref, tmp: ["emit(%s(%d));" % (ref(name), arg)]
        self.p.add(it)
        self.int_fns.append(name)

    def mk_global_type_inst(self):
        r = self.rnd
        n_inst = getattr(self, "n_type_inst", 0)
        if n_inst >= 3:
            return self.mk_const()
        self.n_type_inst = n_inst + 1
        if n_inst == 0 or (r.random() < 0.3):
            vec = self.fresh("Vec")
            vit = Item(vec, "type_fn")
            vit.is_function = True
            vit.render = lambda ref, vec=vec: ("%s :: (comptime T: type, comptime n: usize) -> type {\n"
                                               "    struct { data: [n]T, len: i64 }\n}") % vec
            self.p.add(vit)
            self.vec_fns = getattr(self, "vec_fns", []) + [vec]
        vec = r.choice(self.vec_fns)
        k = r.randint(2, 4)
        t = r.choice(["i64", "i32", "u8"])
        name = self.fresh("VT")
        it = Item(name, "type_inst")
        it.deps.add(vec)
        it.render = lambda ref: "%s :: comptime %s(%s, %d);" % (name, ref(vec), t, k)
        self.p.add(it)
        mk = self.fresh("mv")
        mit = Item(mk, "fn")
        mit.is_function = True
        mit.deps |= {name}
        elems = ", ".join("%s.(a %% 20 + %d)" % (t, i) for i in range(k))
        mit.render = lambda ref: (
            "%s :: (a: i64) -> i64 {\n    v : %s = %s.{ data = %s.[%s], len = %d };\n"
            "    (i64.(v.data[%d]) + v.len) %% 997\n}" % (mk, ref(name), ref(name), t, elems, k, k - 1))
        arg = r.randint(0, 9)
        mit.uses = lambda ref, tmp: ["emit(%s(%d));" % (ref(mk), arg)]
        self.p.add(mit)
        self.int_fns.append(mk)

    def mk_untyped_const(self):
        r = self.rnd
        name = self.fresh("uc")
        it = Item(name, "small_const")
        kind = r.choice(["untyped", "untyped", "u8", "u16"])
        v = r.randint(1, 99)
        if kind == "untyped":
            it.render = lambda ref: "%s :: %d;" % (name, v)
        else:
            it.render = lambda ref: "%s : %s : %d;" % (name, kind, v)
        it.uses = lambda ref, tmp: ["emit(i64.(%s));" % ref(name)]
        self.p.add(it)
        self.small_consts = getattr(self, "small_consts", []) + [(name, kind)]

    def mk_const_array(self):
        r = self.rnd
        smalls = getattr(self, "small_consts", [])
        name = self.fresh("ka")
        it = Item(name, "const_array")
        elem = r.choice(["i64", "i64", "u16", "u64"])
        n = r.randint(2, 4)
        items = []
        for _ in range(n):
            k = r.random()
            # an untyped global ends up as an i32, which only fits into the i64 arrays
            fits = [nm for nm, kind in smalls if elem == "i64" or kind in ("u8", "u16")]
            if elem == "i64" and self.int_consts and k < 0.4:
                c = r.choice(self.int_consts)
                it.deps.add(c)
                items.append(lambda ref, c=c: ref(c))
            elif fits and k < 0.8:
                c = r.choice(fits)
                it.deps.add(c)
                items.append(lambda ref, c=c: ref(c))
            else:
                v = self.lit(1, 90)
                items.append(lambda ref, v=v: v)
        it.render = lambda ref: "%s :: %s.[%s];" % (name, elem, ", ".join(x(ref) for x in items))
        it.uses = lambda ref, tmp: ["emit(i64.(%s[%d]));" % (ref(name), i) for i in range(n)]
        self.p.add(it)
        if elem == "i64":
            self.global_arrays = getattr(self, "global_arrays", []) + [name]

    def mk_array_type_alias(self, size_const=None):
        if not self.usize_consts:
            return self.mk_usize()
        r = self.rnd
        name = self.fresh("AT")
        it = Item(name, "array_alias")
        c = r.choice(sorted(self.usize_consts))
        if getattr(self, "usize_aliases", None) and r.random() < 0.7:
            c = r.choice(self.usize_aliases)
        if size_const:
            c = size_const
        n = self.usize_consts[c]
        it.deps.add(c)
        t = r.choice(["i64", "i64", "u8", "i32"])
        it.render = lambda ref: "%s :: [%s]%s;" % (name, ref(c), t)
        v0 = r.randint(1, 40)

        def uses(ref, tmp):
            x = tmp("at")
            elems = ", ".join(str(v0 + i) for i in range(n))
            return ["%s : %s = %s.[%s];" % (x, ref(name), t, elems),
                    "emit(i64.(%s[%d]) + i64.(%s.len));" % (x, n - 1, x)]

        it.uses = uses
        self.p.add(it)

    def mk_generic_enum(self):
        r = self.rnd
        gens = getattr(self, "generic_enum_fns", [])

        def add_inst(g):
            insts = self.generic_enum_insts
            used = set(t for _, t in insts)
            t = r.choice([x for x in ["i64", "u8", "bool", "i32", "u16"] if x not in used] or ["i64"])
            name = self.fresh("OT")
            it = Item(name, "type_inst")
            it.deps.add(g)
            it.render = lambda ref: "%s :: comptime %s(%s);" % (name, ref(g), t)
            self.p.add(it)
            insts.append((name, t))

        if not gens:
            name = self.fresh("Opt")
            it = Item(name, "type_fn")
            it.is_function = True
            it.render = lambda ref: ("%s :: (comptime T: type) -> type {\n    enum { Some: T, None }\n}") % name
            self.p.add(it)
            self.generic_enum_fns = [name]
            self.generic_enum_insts = []
            add_inst(name)
            add_inst(name)
            return
        g = r.choice(gens)
        insts = self.generic_enum_insts
        if len(insts) < 4 and r.random() < 0.3:
            add_inst(g)
            return
        inst, t = r.choice(insts)
        name = self.fresh("pk")
        it = Item(name, "fn")
        it.is_function = True
        it.deps.add(inst)
        if t == "bool":
            some, back = "a % 3 == 0", "if bool.(x) { 1 } else { 2 }"
        else:
            some, back = "%s.(a %% 90 + 3)" % t, "i64.(x)"

        def render(ref):
            # `v` is typed by joining the types of the two branches (two variants of one enum)
            return ("%s :: (a: i64) -> i64 {\n    v := if a %% 2 == 0 { %s.Some.(%s) } else { %s.None };\n"
                    "    switch x in v {\n        .Some => %s,\n        .None => 0 - 1,\n    }\n}"
                    % (name, ref(inst), some, ref(inst), back))

        it.render = render
        a1, a2 = r.randint(0, 9), r.randint(0, 9)
        it.uses = lambda ref, tmp: ["emit(%s(%d));" % (ref(name), a1), "emit(%s(%d));" % (ref(name), a2 + 1)]
        self.p.add(it)
        self.int_fns.append(name)

    def mk_local_ct_agg(self):
        r = self.rnd
        name = self.fresh("la")
        it = Item(name, "fn")
        it.is_function = True
        n = r.randint(2, 4)
        elems = [self.iexpr(it, None, depth=1, allow_calls=False) for _ in range(n)]
        extra = None
        if self.struct_makers and r.random() < 0.5:
            mk = r.choice(sorted(self.struct_makers))
            sn = self.struct_makers[mk]
            it.deps |= {mk, sn}
            it.deps |= self.p.by_name[sn].deps
            extra = (mk, sn, self.lit(0, 6))

        def render(ref):
            body = ["tbl := comptime { i64.[%s] };" % ", ".join("(%s) %% 997" % e(ref) for e in elems)]
            # `a` can be negative (callers pass constants): keep the index inside the table - a
            # runtime trap names the file of the function in its message, which is not behaviour
            # that the split into files may not change
            terms = ["tbl[usize.((a %% %d + %d) %% %d)]" % (n, n, n), "tbl[0]"]
            if extra:
                mk, sn, arg = extra
                body.append("rec := comptime { %s(%s) };" % (ref(mk), arg))
                terms.append(self.digest_text(("named", sn), ref, "rec"))
            return "%s :: (a: i64) -> i64 {\n%s    (%s) %% 997\n}" % (
                name, "".join("    %s\n" % b for b in body), " + ".join(terms))

        it.render = render
        arg = r.randint(0, 9)
        it.uses = lambda ref, tmp: ["emit(%s(%d));" % (ref(name), arg)]
        self.p.add(it)
        self.int_fns.append(name)

    def mk_type_field(self):
        r = self.rnd
        first = getattr(self, "wrapper_struct", None) is None
        if first:
            wr = self.fresh("Wr")
            it = Item(wr, "struct")
            it.render = lambda ref: "%s :: struct { t: type, n: i32 };" % wr
            self.p.add(it)
            self.wrapper_struct = wr
            self.wrapped = []
        wr = self.wrapper_struct
        while len(self.structs) + len(self.distincts) < 2:
            self._plain_int_struct()
        cands = sorted(self.structs) + sorted(self.distincts)

        def add_wrapper():
            unused = [c for c in cands if c not in self.wrapped] or cands
            t1 = r.choice(unused)
            self.wrapped.append(t1)
            name = self.fresh("wv")
            it = Item(name, "comptime_wrapper")
            it.deps |= {wr, t1}
            k = r.randint(1, 9)
            it.render = lambda ref: "%s :: comptime { %s.{ t = %s, n = %d } };" % (name, ref(wr), ref(t1), k)
            t2 = r.choice([c for c in cands if c != t1])

            def uses(ref, tmp):
                return ["if %s.t == %s { emit(%d); } else { emit(0); }" % (ref(name), ref(t1), 100 + k),
                        "if %s.t == %s { emit(%d); } else { emit(0); }" % (ref(name), ref(t2), 200 + k),
                        "emit(i64.(%s.n));" % ref(name)]

            it.uses = uses
            self.p.add(it)

        add_wrapper()
        if first:
            add_wrapper()

    def mk_generic_alias_param(self):
        r = self.rnd
        t = r.choice(["i64", "i64", "i32", "u16"])
        al = self.fresh("MyI")
        ait = Item(al, "prim_alias")
        ait.render = lambda ref: "%s :: %s;" % (al, t)
        self.p.add(ait)
        fn = self.fresh("rp")
        fit = Item(fn, "generic")
        fit.is_function = True
        fit.deps.add(al)
        fit.render = lambda ref: "%s :: (comptime v: %s, n: i64) -> i64 {\n    n + i64.(v)\n}" % (fn, ref(al))
        self.p.add(fit)
        name = self.fresh("k")
        it = Item(name, "comptime")
        it.deps.add(fn)
        v, n = r.randint(1, 90), r.randint(1, 9)
        it.render = lambda ref: "%s :: comptime { %s(%d, %d) };" % (name, ref(fn), v, n)
        it.uses = lambda ref, tmp: ["emit(%s);" % ref(name)]
        self.p.add(it)
        self.int_consts.append(name)

    def mk_generic_enum_units(self):
        r = self.rnd
        if not getattr(self, "tri_fn", None):
            tri = self.fresh("Tri")
            it = Item(tri, "type_fn")
            it.is_function = True
            it.render = lambda ref: "%s :: (comptime T: type) -> type {\n    enum { A: T, B, C }\n}" % tri
            self.p.add(it)
            self.tri_fn = tri
            self.tri_insts = []
            for t in r.sample(["i64", "bool", "u8", "i32"], 2):
                name = self.fresh("TT")
                iit = Item(name, "type_inst")
                iit.deps.add(tri)
                iit.render = (lambda ref, name=name, t=t: "%s :: comptime %s(%s);" % (name, ref(tri), t))
                self.p.add(iit)
                self.tri_insts.append(name)
            return
        inst = r.choice(self.tri_insts)
        name = self.fresh("pu")
        it = Item(name, "fn")
        it.is_function = True
        it.deps.add(inst)
        it.render = lambda ref: (
            "%s :: (a: i64) -> i64 {\n    v : %s = if a %% 2 == 0 { %s.B } else { %s.C };\n"
            "    switch x in v {\n        .A => 1,\n        .B => 2,\n        .C => 3,\n    }\n}"
            % (name, ref(inst), ref(inst), ref(inst)))
        a1 = r.randint(0, 9)
        it.uses = lambda ref, tmp: ["emit(%s(%d));" % (ref(name), a1), "emit(%s(%d));" % (ref(name), a1 + 1)]
        self.p.add(it)
        self.int_fns.append(name)

    def mk_weak_locals(self):
        r = self.rnd
        if not self.int_consts:
            return self.mk_const()
        name = self.fresh("k")
        it = Item(name, "comptime")
        o = r.choice(self.int_consts)
        it.deps.add(o)
        shape = r.choice(["quick_assign", "quick_assign", "assign", "union_block"])
        big = r.choice(["2000000000 + 2000000000", "3000000000", "2147483647 + 9"])
        if shape == "quick_assign":
            it.render = lambda ref: (
                "%s :: comptime { l := 5; l += %s; y := %s; l *= i64.(3); (l + y) %% 997 };"
                % (name, big, ref(o)))
        elif shape == "assign":
            it.render = lambda ref: (
                "%s :: comptime { l := 5; l = %s; y := %s; m : i64 = l; (m + y) %% 997 };"
                % (name, big, ref(o)))
        else:
            it.render = lambda ref: (
                "%s :: comptime { c := 3; r : str!u64 = `blk: { if c == 3 { break \"no\"; } break c * 2; }; "
                "y := %s; y %% 997 };" % (name, ref(o)))
        it.uses = lambda ref, tmp: ["emit(%s);" % ref(name)]
        self.p.add(it)
        self.int_consts.append(name)

    def mk_rec_lambda(self):
        r = self.rnd
        name = self.fresh("rl")
        it = Item(name, "fn")
        it.is_function = True
        it.recursive = True
        base = self.lit(1, 9)
        c = self._int_anchor(it)
        kind = r.choice(["nested", "lambda"])

        def render(ref):
            if kind == "nested":
                loc = "helper :: (q: i64) -> i64 { (q * 2 + %s) %% 997 };" % c(ref)
            else:
                loc = "helper := (q: i64) -> i64 { (q + %s) %% 997 };" % c(ref)
            return ("%s :: (a: i64) -> i64 {\n    if a <= 0 { %s } else {\n        rest := %s(a - 1);\n"
                    "        %s\n        (rest + helper(a)) %% 997\n    }\n}" % (name, base, name, loc))

        it.render = render
        arg = r.randint(0, 5)
        it.uses = lambda ref, tmp: ["emit(%s(%d));" % (ref(name), arg)]
        self.p.add(it)
        self.int_fns.append(name)

    def mk_type_table(self):
        r = self.rnd
        if getattr(self, "wrapper_struct", None) is None:
            return self.mk_type_field()
        wr = self.wrapper_struct
        while len(self.structs) + len(self.distincts) < 3:
            self._plain_int_struct()
        cands = sorted(self.structs) + sorted(self.distincts)
        picks = r.sample(cands, r.randint(2, min(4, len(cands))))
        name = self.fresh("tt")
        it = Item(name, "comptime_wrapper")
        it.deps.add(wr)
        it.deps |= set(picks)
        it.render = lambda ref: "%s :: comptime { %s.[%s] };" % (
            name, ref(wr), ", ".join("%s.{ t = %s, n = %d }" % (ref(wr), ref(t), i) for i, t in enumerate(picks)))

        def uses(ref, tmp):
            out = []
            for i, t in enumerate(picks):
                out.append("if %s[%d].t == %s { emit(%d); } else { emit(0); }" % (ref(name), i, ref(t), 300 + i))
            out.append("if %s[0].t == %s { emit(1); } else { emit(0); }" % (ref(name), ref(picks[-1])))
            return out

        it.uses = uses
        self.p.add(it)

    def mk_alias_recursion(self):
        r = self.rnd
        st, hd = self.fresh("st"), self.fresh("hd")
        sit = Item(st, "fn")
        sit.is_function = True
        sit.recursive = True
        sit.deps.add(hd)
        base = self.lit(1, 9)
        step = self.iexpr(sit, "a", depth=1, exclude=(st, hd))
        sit.render = lambda ref: (
            "%s :: (a: i64) -> i64 {\n    if a <= 0 { %s } else { (%s + %s(a - 1)) %% 997 }\n}"
            % (st, base, step(ref), ref(hd)))
        arg = r.randint(0, 5)
        sit.uses = lambda ref, tmp: ["emit(%s(%d));" % (ref(st), arg)]
        # `hd` is the function's value, directly or through a chain of up to three more aliases
        chain = [self.fresh("hx") for _ in range(r.choice([0, 0, 1, 2, 2, 3]))]
        self.p.add(sit)
        prev = st
        for al in chain + [hd]:
            ait = Item(al, "fn_value")
            ait.recursive = True
            ait.deps.add(prev)
            ait.render = (lambda ref, al=al, prev=prev: "%s :: %s;" % (al, ref(prev)))
            a2 = r.randint(0, 5)
            ait.uses = (lambda ref, tmp, al=al, a2=a2: ["emit(%s(%d));" % (ref(al), a2)])
            self.p.add(ait)
            prev = al
        self.int_fns.append(st)

    def mk_distinct_generic(self):
        r = self.rnd
        if not self.generic_type_fns:
            self.mk_generic_type()
        g = r.choice(self.generic_type_fns)
        dn = None
        for cand, under in sorted(self.distincts.items()):
            if under == "i64":
                dn = cand
        if dn is None:
            dn = self.fresh("D")
            dit = Item(dn, "distinct")
            self.distincts[dn] = "i64"
            dit.render = lambda ref: "%s :: distinct i64;" % dn
            self.p.add(dit)
        # two consts: one instantiates g with the distinct type, the other with its base type; a
        # chain of dependent consts delays one of them by a few scheduler rounds
        chain_len = r.randint(0, 5)
        prev = None
        for _ in range(chain_len):
            cn = self.fresh("c")
            cit = Item(cn, "comptime")
            if prev:
                cit.deps.add(prev)
                cit.render = (lambda ref, cn=cn, prev=prev: "%s :: comptime { %s + 1 };" % (cn, ref(prev)))
            else:
                v = r.randint(1, 9)
                cit.render = (lambda ref, cn=cn, v=v: "%s : i64 : comptime { %d };" % (cn, v))
            cit.uses = (lambda ref, tmp, cn=cn: ["emit(%s);" % ref(cn)])
            self.p.add(cit)
            self.int_consts.append(cn)
            prev = cn
        a, b = r.randint(1, 9), r.randint(1, 9)
        n1 = self.fresh("k")
        it1 = Item(n1, "comptime")
        it1.deps |= {g, dn}
        it1.render = lambda ref: "%s :: comptime { i64.(%s(%s, %s.(%d), %s.(%d))) };" % (
            n1, ref(g), ref(dn), ref(dn), a, ref(dn), b)
        it1.uses = lambda ref, tmp: ["emit(%s);" % ref(n1)]
        n2 = self.fresh("k")
        it2 = Item(n2, "comptime")
        it2.deps.add(g)
        if prev:
            it2.deps.add(prev)
        tail = (lambda ref: " + %s" % ref(prev)) if prev else (lambda ref: "")
        it2.render = lambda ref: "%s :: comptime { %s(i64, %d, %d)%s };" % (n2, ref(g), b, a, tail(ref))
        it2.uses = lambda ref, tmp: ["emit(%s);" % ref(n2)]
        first, second = (it1, it2) if r.random() < 0.5 else (it2, it1)
        self.p.add(first)
        self.p.add(second)
        self.int_consts.extend([n1, n2])

    def mk_enum_compare(self):
        r = self.rnd
        cands = [e for e in sorted(self.enums)
                 if len(set(str(p) for _, p, _ in self.enums[e] if p is not None)) >= 2]
        if not cands:
            # an enum of its own with an aggregate, an array and scalars as payloads
            while not self.structs:
                self._plain_int_struct()
            sn = r.choice(sorted(self.structs))
            ename = self.fresh("E")
            eit = Item(ename, "enum")
            eit.deps.add(sn)
            evariants = [("V0", None, None), ("V1", ("named", sn), None), ("V2", ("int", "u8"), None),
                         ("V3", ("array", None, 3, "i64"), None), ("V4", ("int", "i64"), None)]
            self.enums[ename] = evariants
            eit.render = (lambda ref, ename=ename, sn=sn:
                          "%s :: enum { V0, V1: %s, V2: u8, V3: [3]i64, V4: i64 };" % (ename, ref(sn)))
            self.p.add(eit)
            cands = [ename]
        en = r.choice(cands)
        variants = self.enums[en]
        name = self.fresh("eq")
        it = Item(name, "fn")
        it.is_function = True
        it.deps.add(en)
        for _, payload, _ in variants:
            if payload is not None and payload[0] == "named":
                it.deps.add(payload[1])
                it.deps |= self.p.by_name[payload[1]].deps

        def mk_value(ref, i, seed):
            vn, payload, _ = variants[i % len(variants)]
            if payload is None:
                return "%s.%s" % (ref(en), vn)
            return "%s.%s.(%s)" % (ref(en), vn, self.value_text(payload, ref, seed))

        picks = [r.randrange(len(variants)) for _ in range(3)]

        def render(ref):
            a = mk_value(ref, picks[0], "(a % 7)")
            b = mk_value(ref, picks[1], "(a % 5)")
            c = mk_value(ref, picks[2], "(a % 7)")
            return ("%s :: (a: i64) -> i64 {\n    x : %s = %s;\n    y : %s = %s;\n    z : %s = %s;\n"
                    "    n : i64 = 0;\n    if x == y { n = n + 1; }\n    if x != z { n = n + 2; }\n"
                    "    if y == z { n = n + 4; }\n    if x == x { n = n + 8; }\n    n\n}"
                    % (name, ref(en), a, ref(en), b, ref(en), c))

        it.render = render
        a1, a2 = r.randint(0, 9), r.randint(0, 9)
        it.uses = lambda ref, tmp: ["emit(%s(%d));" % (ref(name), a1), "emit(%s(%d));" % (ref(name), a2)]
        self.p.add(it)
        self.int_fns.append(name)

    def mk_generic_enum_base(self):
        r = self.rnd
        if not getattr(self, "level_fn", None):
            lv = self.fresh("Level")
            it = Item(lv, "type_fn")
            it.is_function = True
            it.render = lambda ref: ("%s :: (comptime T: type, comptime base: u8) -> type {\n"
                                     "    enum { Low: T | base, Mid, High }\n}") % lv
            self.p.add(it)
            self.level_fn = lv
            self.level_insts = []
            t = r.choice(["i64", "i32", "u8"])
            for base in r.sample([1, 10, 20, 40], 2):
                name = self.fresh("LV")
                iit = Item(name, "type_inst")
                iit.deps.add(lv)
                iit.render = (lambda ref, name=name, base=base: "%s :: comptime %s(%s, %d);" % (name, ref(lv), t, base))
                self.p.add(iit)
                self.level_insts.append(name)
            return
        a, b = r.sample(self.level_insts, 2)
        mixed = r.random() < 0.25 and not getattr(self, "have_mixed", False)
        if mixed:
            self.have_mixed = True
        other = b if mixed else a
        name = self.fresh("lv")
        it = Item(name, "fn")
        it.is_function = True
        it.deps |= {a, other}
        it.render = lambda ref: (
            "%s :: (x: i64) -> i64 {\n    v : %s = if x %% 2 == 0 { %s.Mid } else { %s.High };\n"
            "    switch w in v {\n        .Low => 1,\n        .Mid => 50,\n        .High => 100,\n    }\n}"
            % (name, ref(a), ref(a), ref(other)))
        a1 = r.randint(0, 9)
        it.uses = lambda ref, tmp: ["emit(%s(%d));" % (ref(name), a1), "emit(%s(%d));" % (ref(name), a1 + 1)]
        self.p.add(it)
        self.int_fns.append(name)

    def build(self):
        self.add_prelude()
        r = self.rnd
        menu = [("const", self.mk_const, 3)]
        f = self.f
        if "usize_sizes" in f:
            menu.append(("usize", self.mk_usize, 2))
        if "structs" in f:
            menu.append(("struct", self.mk_struct, 3))
        if "enums" in f:
            menu.append(("enum", self.mk_enum, 2))
        if "distinct" in f:
            menu.append(("distinct", self.mk_distinct, 1))
        if "alias" in f:
            menu.append(("alias", self.mk_alias, 1))
        if "functions" in f:
            menu.append(("fn", self.mk_fn, 4))
        if "mutual_recursion" in f:
            menu.append(("mutual", self.mk_mutual, 1))
        if "struct_fns" in f and "structs" in f:
            menu.append(("struct_fn", self.mk_struct_fn, 2))
        if "comptime_int" in f:
            menu.append(("comptime_int", self.mk_comptime_int, 3))
        if "comptime_struct" in f and "structs" in f:
            menu.append(("comptime_struct", self.mk_comptime_struct, 2))
        if "generic_type" in f:
            menu.append(("generic_type", self.mk_generic_type, 1))
        if "generic_int" in f:
            menu.append(("generic_int", self.mk_generic_int, 1))
        if "fn_value" in f:
            menu.append(("fn_value", self.mk_fn_value, 1))
        if "global_array" in f:
            menu.append(("global_array", self.mk_global_array, 1))
        if "value_alias" in f:
            menu.append(("value_alias", self.mk_value_alias, 1))
        if "comptime_enum" in f and "enums" in f:
            menu.append(("comptime_enum", self.mk_comptime_enum, 1))
        if "higher_order" in f:
            menu.append(("higher_order", self.mk_higher_order, 1))
        if "type_fn" in f:
            menu.append(("type_fn", self.mk_type_fn, 1))
        if "loops" in f:
            menu.append(("loops", self.mk_loop_fn, 2))
        if "typed_user_globals" in f and ("structs" in f or "distinct" in f):
            menu.append(("typed_literal", self.mk_typed_literal, 2))
        if "global_readers" in f:
            menu.append(("global_reader", self.mk_global_reader, 2))
        if "struct_cast" in f:
            menu.append(("struct_cast", self.mk_struct_cast, 2))
        if "local_comptime_calls" in f:
            menu.append(("local_ct_fn", self.mk_local_ct_fn, 2))
        if "generic_twins" in f:
            menu.append(("generic_twins", self.mk_generic_twins, 1))
        if "generic_dependent" in f:
            menu.append(("generic_dependent", self.mk_generic_dependent, 1))
        if "generic_nested_fns" in f:
            menu.append(("generic_nested_fns", self.mk_generic_nested, 1))
        if "floats" in f:
            menu.append(("float", self.mk_float, 2))
        if "optionals" in f:
            menu.append(("optional", self.mk_optional, 2))
        if "error_unions" in f:
            menu.append(("error_union", self.mk_error_union, 2))
        if "pointers" in f:
            menu.append(("pointer_fns", self.mk_pointer_fns, 1))
        if "slices" in f:
            menu.append(("slice_fns", self.mk_slice_fns, 1))
        if "defer_break" in f:
            menu.append(("defer_break", self.mk_defer_break, 1))
        if "lambdas" in f:
            menu.append(("lambda_fn", self.mk_lambda_fn, 1))
        if "type_blocks" in f:
            menu.append(("type_block", self.mk_type_block, 2))
        if "bools" in f:
            menu.append(("bool", self.mk_bool, 1))
        if "struct_arrays" in f and "structs" in f:
            menu.append(("struct_array", self.mk_struct_array, 1))
        if "fn_members" in f:
            menu.append(("fn_member", self.mk_fn_member, 1))
        if "anon_literals" in f:
            menu.append(("anon_literal", self.mk_anon_literal, 1))
        if "global_type_inst" in f:
            menu.append(("global_type_inst", self.mk_global_type_inst, 1))
        if "generic_enums" in f:
            menu.append(("generic_enum", self.mk_generic_enum, 3))
        if "alias_hops" in f and "usize_sizes" in f:
            menu.append(("array_type_alias", self.mk_array_type_alias, 2))
        if "local_comptime_aggs" in f:
            menu.append(("local_ct_agg", self.mk_local_ct_agg, 2))
        if "type_fields" in f and ("structs" in f or "distinct" in f):
            menu.append(("type_field", self.mk_type_field, 2))
        if "generic_alias_param" in f:
            menu.append(("generic_alias_param", self.mk_generic_alias_param, 1))
        if "generic_enum_units" in f:
            menu.append(("generic_enum_units", self.mk_generic_enum_units, 2))
        if "weak_locals" in f:
            menu.append(("weak_locals", self.mk_weak_locals, 2))
        if "rec_lambdas" in f:
            menu.append(("rec_lambda", self.mk_rec_lambda, 1))
        if "type_tables" in f and ("structs" in f or "distinct" in f):
            menu.append(("type_table", self.mk_type_table, 2))
        if "alias_recursion" in f:
            menu.append(("alias_recursion", self.mk_alias_recursion, 1))
        if "distinct_generics" in f:
            menu.append(("distinct_generic", self.mk_distinct_generic, 1))
        if "enum_compare" in f:
            menu.append(("enum_compare", self.mk_enum_compare, 2))
        if "generic_enum_bases" in f:
            menu.append(("generic_enum_base", self.mk_generic_enum_base, 2))
        if "untyped_consts" in f:
            menu.append(("untyped_const", self.mk_untyped_const, 2))
        if "const_arrays" in f:
            menu.append(("const_array", self.mk_const_array, 2))
        weights = [w for _, _, w in menu]
        guard = 0
        while self.count_globals() < self.n and guard < 100:
            guard += 1
            _, fn, _ = r.choices(menu, weights)[0]
            fn()
        if "local_comptime_calls" in f and not getattr(self, "local_ct_fns", 0):
            self.mk_local_ct_fn()
        if "generic_twins" in f and not self.p.twins:
            self.mk_generic_twins()
        if "same_names" in f:
            self.pick_same_names()
        main = Item("main", "main")
        main.is_function = True
        main.deps.add("emit")
        self.p.add(main)
        self.p.status = r.randint(0, 40)
        return self.p

    def count_globals(self):
        return len([i for i in self.p.items if i.kind not in ("putchar", "emit", "main")])


def generate(rnd, features=None, n_globals=None):
    """features: iterable of feature names (default: a seeded subset = swarm)"""
    if features is None:
        # swarm: the density of enabled features is itself drawn per program, so that some
        # programs concentrate their 3-12 globals on a few constructs and others mix many.
        # Half of the programs are *themed*: the features of one family are enabled with high
        # probability and everything else only rarely, so that constructs which have to meet in
        # one small program (an annotated global and a global that reads it; two instantiations
        # of one generic) still meet often now that there are more than sixty features.
        features = {"functions"}
        if rnd.random() < 0.5:
            theme = set(rnd.choice(THEMES))
            for f in ALL_FEATURES:
                p = 0.65 if f in theme else 0.06
                if f == "use_core":
                    p = 0.1
                if rnd.random() < p:
                    features.add(f)
        else:
            density = rnd.choice([0.12, 0.25, 0.4, 0.55])
            for f in ALL_FEATURES:
                if rnd.random() < (min(0.2, density) if f == "use_core" else density):
                    features.add(f)
    if n_globals is None:
        n_globals = rnd.randint(3, 12)
    import os
    force = os.environ.get("VERIF_G_FORCE")     # calibration knob, never set by the checks
    if force:
        features = set(features) | set(force.split(","))
    return _Gen(rnd, features, n_globals).build()
