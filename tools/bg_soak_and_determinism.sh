#!/bin/bash
# background job: zero-alarm soak over several seeds, then the determinism comparison
cd "$(dirname "$0")/.."
./setup.sh >/dev/null 2>&1
python3 tools/soak.py --seeds 1,2,3,4,5,6
PYTHONHASHSEED=1 python3 tools/determinism.py run /tmp/det-a.json --seeds 700 --workers 4
PYTHONHASHSEED=77 python3 tools/determinism.py run /tmp/det-b.json --seeds 700 --workers 2
PYTHONHASHSEED=12345 python3 tools/determinism.py run /tmp/det-c.json --seeds 700 --workers 6
python3 tools/determinism.py diff /tmp/det-a.json /tmp/det-b.json /tmp/det-c.json | tee notes/determinism-result.txt
