#!/bin/bash
# background job: the thorough tier of the three E1 checks, one after the other
cd "$(dirname "$0")/.."
./setup.sh >/dev/null 2>&1
for c in C28 C21 C20; do
  /usr/bin/time -f "$c thorough: %es" ./check $c --tier thorough --no-build 2>&1 | tail -6
done
