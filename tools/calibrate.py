#!/usr/bin/env python3
"""Calibration of generator G on the tree: which generated programs does the compiler reject in
their *base* order, and why?  tools/calibrate.py <n> [feature,feature,...] [--only]

Prints one example program per rejection reason. Not a check."""
import os
import random
import sys

sys.path.insert(0, os.path.dirname(os.path.dirname(os.path.abspath(__file__))))
os.environ.setdefault("PYTHONHASHSEED", "0")
from sim import common, gen, c20  # noqa: E402


def task(t):
    seed, idx, feats, only = t
    bx = common.worker_box()
    rnd = random.Random(common.sub_seed(seed, "calibrate", idx))
    if only:
        prog = gen.generate(rnd, features=set(feats) | {"functions"})
    else:
        f = {"functions"}
        for x in gen.ALL_FEATURES:
            if rnd.random() < (0.0 if x in ("use_core", "same_names") else 0.4):
                f.add(x)
        prog = gen.generate(rnd, features=f | set(feats))
    files = gen.render(prog, gen.base_variant(prog))
    o = c20.build_and_run(bx, files, want_trace=False)
    ok = o["accepted"] and o["run_exit"] is not None and o["run_exit"] >= 0
    reason = None
    if not ok:
        reason = ("crash: " + o["compile_stdout_tail"][-300:] + o["compile_stderr_tail"][-600:]) if o["crashed"] else \
            ("run-signal %s" % o["run_exit"]) if o["accepted"] else (o["errors"] or ["?"])[0]
    return {"idx": idx, "ok": ok, "reason": reason, "files": files if not ok else None,
            "out": o["compile_stdout_tail"] if not ok else None, "features": prog.features}


def main():
    n = int(sys.argv[1])
    feats = [x for x in (sys.argv[2].split(",") if len(sys.argv) > 2 and not sys.argv[2].startswith("--") else []) if x]
    only = "--only" in sys.argv
    seed = common.seed_from_env()
    res = common.parallel_map(task, [(seed, i, feats, only) for i in range(n)])
    bad = [r for r in res if not r["ok"]]
    print("%d/%d accepted" % (n - len(bad), n))
    seen = {}
    for r in bad:
        key = r["reason"][:50] if not r["reason"].startswith("crash") else "crash:" + r["reason"][-200:-100]
        seen.setdefault(key, []).append(r)
    for key, rs in seen.items():
        r = rs[0]
        print("=" * 100)
        print("REASON x%d: %s" % (len(rs), r["reason"][:1500]))
        print("features:", r["features"])
        for fn, text in r["files"].items():
            print("--- " + fn)
            print(text)
        print("--- compiler output tail")
        print(r["out"][-1200:])
    common.cleanup_scratch()


if __name__ == "__main__":
    main()
