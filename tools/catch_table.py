#!/usr/bin/env python3
"""Regenerate the catch table at the end of DESIGN.md (section 10) from
notes/mutation-results.json, tools/mutants.py and seeded/*/meta.json."""
import glob
import json
import os
import sys

VERIF = os.path.dirname(os.path.dirname(os.path.abspath(__file__)))
sys.path.insert(0, os.path.join(VERIF, "tools"))
from mutants import MUTANTS  # noqa: E402

BEGIN, END = "<!-- catch-table:begin -->", "<!-- catch-table:end -->"


def main():
    res = json.load(open(os.path.join(VERIF, "notes", "mutation-results.json")))
    out = [BEGIN, "", "## 10. Catch table", "",
           "### 10.1 Changes written by independent sub-agents (`seeded/<id>/`)", "",
           "Each sub-agent saw only the text of one property and a scratch worktree; every change "
           "compiles, passes the 690 existing tests unedited, and comes with a demonstration that "
           "fails with it and passes without it (re-confirmed here, `confirm.log`). `tools/eval_seeded.py` "
           "applies the patch to `/repo`, runs the check, and undoes it.", "",
           "| seeded id | property | what it needs to manifest | verdict of the check | history |",
           "|---|---|---|---|---|"]
    for path in sorted(glob.glob(os.path.join(VERIF, "seeded", "*", "meta.json"))):
        m = json.load(open(path))
        checks = m.get("checks", {})
        verdict = "; ".join("%s: **%s**" % (c, v["verdict"]) for c, v in sorted(checks.items()))
        out.append("| `%s` | %s | %s | %s | %s |" % (
            m["id"], m["property"], m["needs_to_manifest"].replace("|", "/")[:260], verdict or "not run",
            m.get("history", "caught at first attempt")))
    out += ["", "### 10.2 Hand-written mutants (`tools/mutants.py`, run by `tools/run_mutants.py` against a scratch worktree)", "",
            "`expect = quiet` marks negative controls: edits that keep the property true and must not raise an alarm.", "",
            "| mutant | what it does | expect | result |", "|---|---|---|---|"]
    for m in MUTANTS:
        r = res.get(m["id"], {})
        cells = []
        for c in m["checks"]:
            x = r.get("checks", {}).get(c)
            if not x:
                cells.append("%s: not run" % c)
                continue
            v = {0: "quiet", 1: "caught", 2: "refuses to decide (exit 2)"}.get(x["exit"], "exit %s" % x["exit"])
            cells.append("%s: %s" % (c, v))
        note = m["note"]
        if m["id"] in NOTES:
            note += " — " + NOTES[m["id"]]
        out.append("| `%s` | %s | %s | %s |" % (m["id"], note, m["expect"], "; ".join(cells)))
    out += ["", END]
    p = os.path.join(VERIF, "DESIGN.md")
    s = open(p).read()
    block = "\n".join(out)
    if BEGIN in s:
        s = s[:s.index(BEGIN)] + block + s[s.index(END) + len(END):]
    else:
        s = s.rstrip("\n") + "\n\n---------------------------------------------------------------------------\n\n" + block + "\n"
    open(p, "w").write(s)


NOTES = {
    "c20-stale-signature-on-restart": "with this edit *every* generated program is rejected in every order, so order-independence holds vacuously; the check now exits 2 (cannot decide) instead of 0",
    "c20-cyclic-sort-reversed": "rejects programs with recursion in every order alike (31 % of the bases), the rest is unaffected: not an order dependence; the check exits 2 below 80 % accepted bases",
    "c21-random-state-source-files": "missed by the first version (one breaking mutation per program = diagnostics in one file only); caught since invalid programs get 1-3 mutations across files",
    "c28-contains-capy": "missed by the first version (no *existing* file with `.capy` inside its name); caught since worlds contain `w.capy.bak`, `lib.capy.txt`, `x.capyx` with valid contents",
}

if __name__ == "__main__":
    main()
