#!/bin/bash
# tools/confirm_seeded.sh <worktree> <seeded id> <property>
# Independent confirmation of a seeded change in its scratch worktree:
#   with the change: the workspace builds, the existing suite passes, the demonstration FAILS
#   without it:      the demonstration PASSES
# then copies patch.diff, demo/ and NOTES.md to /verif/seeded/<id>/ and writes confirm.log there.
set -u
WT=$1; ID=$2; PROP=$3
OUT=/verif/seeded/$ID
mkdir -p $OUT
LOG=$OUT/confirm.log
: > $LOG
export CARGO_NET_OFFLINE=true
cd $WT || exit 2
cp seeded_out/patch.diff $OUT/patch.diff
rm -rf $OUT/demo; cp -r seeded_out/demo $OUT/demo
[ -f seeded_out/NOTES.md ] && cp seeded_out/NOTES.md $OUT/NOTES.md
# make sure the tree is exactly HEAD + patch
git checkout -- . 2>>$LOG
git apply $OUT/patch.diff || { echo "patch does not apply" | tee -a $LOG; exit 2; }
echo "== with the change: build" | tee -a $LOG
cargo build --release -p capy --offline >>$LOG 2>&1 || { echo "BUILD FAILED" | tee -a $LOG; exit 1; }
echo "== with the change: demo (expect failure)" | tee -a $LOG
( cd $OUT/demo && bash ./run.sh $WT/target/release/capy ) >>$LOG 2>&1; DEMO_WITH=$?
echo "demo exit with change: $DEMO_WITH" | tee -a $LOG
echo "== with the change: test suite" | tee -a $LOG
cargo nextest run --workspace --no-fail-fast --test-threads 4 --offline 2>&1 | tail -6 >>$LOG
SUITE=$(grep -E "tests run:" $LOG | tail -1)
echo "suite: $SUITE" | tee -a $LOG
echo "== without the change: build" | tee -a $LOG
git checkout -- . 2>>$LOG
cargo build --release -p capy --offline >>$LOG 2>&1 || { echo "BASE BUILD FAILED" | tee -a $LOG; exit 1; }
echo "== without the change: demo (expect success)" | tee -a $LOG
( cd $OUT/demo && bash ./run.sh $WT/target/release/capy ) >>$LOG 2>&1; DEMO_WITHOUT=$?
echo "demo exit without change: $DEMO_WITHOUT" | tee -a $LOG
find $OUT/demo -name out -type d -prune -exec rm -rf {} + 2>/dev/null
echo "RESULT id=$ID property=$PROP demo_with=$DEMO_WITH demo_without=$DEMO_WITHOUT suite=\"$SUITE\"" | tee -a $LOG
