#!/usr/bin/env python3
"""Determinism proof of engine E1: one seed = one exactly repeatable execution.

  tools/determinism.py run  <out.json> [--seeds N] [--workers W]    digest every seeded world
  tools/determinism.py diff <a.json> <b.json> [...]                  compare digests

For every seed one world of each check's kind is executed (C21: program + process world +
history of out/; C28: file-system world + legal-I/O or hard-fault plan; C20: program under a
seeded order/partition) and digested: the complete shim event log (scratch root masked), the
scheduler trace, stdout, stderr, exit status, object bytes and the address probes. `run` is
meant to be started several times - in fresh interpreters, with different PYTHONHASHSEED and
worker counts - and `diff` must find all digests identical.
"""
import hashlib
import json
import os
import random
import sys

HERE = os.path.dirname(os.path.abspath(__file__))
sys.path.insert(0, os.path.dirname(HERE))

from sim import box as boxmod, c20, c21, c28, common, gen  # noqa: E402


def h(*parts):
    m = hashlib.sha256()
    for p in parts:
        if p is None:
            p = b"<none>"
        if isinstance(p, str):
            p = p.encode()
        m.update(len(p).to_bytes(8, "big"))
        m.update(p)
    return m.hexdigest()[:20]


def digest(bx, res, obj=None):
    root = bx.root.encode()
    mask = lambda b: b.replace(root, b"<ROOT>")
    return h(mask(res.log_text.encode()), res.trace or "", mask(res.stdout), mask(res.stderr),
             str(res.exit), obj, res.probe or "")


def task(t):
    seed, kind = t
    bx = common.worker_box()
    rnd = random.Random(common.sub_seed(seed, "determinism", kind))
    if kind == "c21":
        files, entry, label, needs_core = c21.make_program(rnd)
        if needs_core:
            bx.use_real_core()
        w, dims = c21.random_world(rnd)
        hist = c21.random_history(rnd)
        bx.clean_proj()
        bx.write_tree(files)
        c21.apply_history(bx, entry, hist)
        res = bx.compile(["build", entry, "--mod-dir", bx.mods, "--no-exec"], w, trace=True)
        return [seed, kind, digest(bx, res, bx.read_obj(os.path.splitext(entry)[0]))]
    if kind == "c28":
        spec = c28.gen_world(rnd)
        w = c28.legal_io_world(rnd) if rnd.random() < 0.5 else c28.faulted_world(rnd, 4)
        c28.materialise(bx, spec)
        res = bx.compile(["build", "main.capy", "--mod-dir", bx.mods], w, trace=True, timeout=20)
        out = None
        exe = os.path.join(bx.proj, "out", "main")
        if res.exit == 0 and os.path.exists(exe):
            r = bx.execute(exe)
            out = r.stdout + b"|" + str(r.exit).encode()
        d = digest(bx, res, out)
        bx.reset()
        return [seed, kind, d]
    prog = gen.generate(rnd)
    if "use_core" in prog.features:
        bx.use_real_core()      # as c20.task does; without it the outcome would depend on whether
                                # an earlier task of this worker happened to install the module
    variant = gen.place_imports(prog, gen.random_variant(prog, rnd), rnd)
    files = gen.render(prog, variant)
    bx.clean_proj()
    bx.write_tree(files)
    res = bx.compile(["build", "main.capy", "--mod-dir", bx.mods], boxmod.REFERENCE_WORLD, trace=True)
    out = None
    exe = os.path.join(bx.proj, "out", "main")
    if res.exit == 0 and os.path.exists(exe):
        r = bx.execute(exe)
        out = r.stdout + b"|" + str(r.exit).encode()
    return [seed, kind, digest(bx, res, (bx.read_obj("main") or b"") + (out or b""))]


def main():
    if sys.argv[1] == "run":
        out = sys.argv[2]
        n = int(sys.argv[sys.argv.index("--seeds") + 1]) if "--seeds" in sys.argv else 200
        w = int(sys.argv[sys.argv.index("--workers") + 1]) if "--workers" in sys.argv else 4
        tasks = [(s, k) for s in range(n) for k in ("c21", "c28", "c20")]
        res = common.parallel_map(task, tasks, nworkers=w)
        common.cleanup_scratch()
        with open(out, "w") as f:
            json.dump({"%d-%s" % (s, k): d for s, k, d in res}, f, indent=0, sort_keys=True)
        print("digested %d executions -> %s (workers=%d PYTHONHASHSEED=%s)" % (
            len(res), out, w, os.environ.get("PYTHONHASHSEED")))
        return 0
    docs = [json.load(open(p)) for p in sys.argv[2:]]
    keys = sorted(set().union(*[set(d) for d in docs]))
    bad = [k for k in keys if len(set(d.get(k) for d in docs)) != 1]
    print("%d executions compared across %d runs: %d differ" % (len(keys), len(docs), len(bad)))
    for k in bad[:20]:
        print("  ", k, [d.get(k) for d in docs])
    return 1 if bad else 0


if __name__ == "__main__":
    sys.exit(main())
