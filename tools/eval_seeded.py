#!/usr/bin/env python3
"""Run the checks against one seeded change (seeded/<id>/patch.diff).

  tools/eval_seeded.py <seeded id> [--checks C20,C26] [--scale small|quick]

The patch is applied to /repo (git apply), the named checks are run (they rebuild the compiler
from the working tree), and the patch is undone again (git checkout -- .) whatever happens.
Evidence and replay files of these runs go to scratch directories. The outcome is stored in
seeded/<id>/meta.json under "checks".
"""
import json
import os
import subprocess
import sys
import time

VERIF = os.path.dirname(os.path.dirname(os.path.abspath(__file__)))
REPO = "/repo"


def sh(cmd, **kw):
    return subprocess.run(cmd, stdout=subprocess.PIPE, stderr=subprocess.STDOUT, **kw)


def main():
    sid = sys.argv[1]
    d = os.path.join(VERIF, "seeded", sid)
    meta_path = os.path.join(d, "meta.json")
    meta = json.load(open(meta_path))
    checks = [meta["property"]]
    if "--checks" in sys.argv:
        checks = sys.argv[sys.argv.index("--checks") + 1].split(",")
    scale = "small"
    if "--scale" in sys.argv:
        scale = sys.argv[sys.argv.index("--scale") + 1]
    dirty = sh(["git", "-C", REPO, "status", "--porcelain", "--untracked-files=no"]).stdout.decode().strip()
    if dirty:
        print("refusing: /repo has uncommitted changes:\n" + dirty)
        return 2
    r = sh(["git", "-C", REPO, "apply", os.path.join(d, "patch.diff")])
    if r.returncode:
        print("patch does not apply:\n" + r.stdout.decode())
        return 2
    env = dict(os.environ)
    env.update({"VERIF_EVIDENCE_DIR": "/tmp/seeded-evidence",
                "VERIF_REPLAYS_DIR": os.path.join(VERIF, "replays", "seeded-" + sid)})
    if scale == "small":
        env.update({"C20_PROGRAMS": "200", "C21_PROGRAMS": "300", "C28_SCALE": "0.5"})
    out = {}
    try:
        for chk in checks:
            t0 = time.time()
            p = sh([os.path.join(VERIF, "check"), chk, "--tier", "quick"], cwd=VERIF, env=env)
            text = p.stdout.decode(errors="replace")
            lines = text.splitlines()
            vio = [l for l in lines if l.startswith("VIOLATION")]
            out[chk] = {"exit": p.returncode,
                        "verdict": {0: "not caught", 1: "caught"}.get(p.returncode, "harness error"),
                        "violation_lines": len(vio),
                        "first": [l for l in lines if l.startswith("VIOLATION") or l.startswith("  ")][:4],
                        "summary": lines[-1:] , "wall_s": round(time.time() - t0), "scale": scale}
            print("%s vs %s: %s (%ds)" % (chk, sid, out[chk]["verdict"], time.time() - t0))
            for l in out[chk]["first"]:
                print("   " + l[:220])
    finally:
        sh(["git", "-C", REPO, "checkout", "--", "."])
        left = sh(["git", "-C", REPO, "status", "--porcelain", "--untracked-files=no"]).stdout.decode().strip()
        if left:
            print("WARNING: /repo still dirty:\n" + left)
        # leave no stale mutant binary behind: rebuild from the restored tree
        sh([os.path.join(VERIF, "setup.sh")], cwd=VERIF)
    meta.setdefault("checks", {}).update(out)
    meta["checks_run_at_verif_commit"] = sh(["git", "-C", VERIF, "rev-parse", "--short", "HEAD"]).stdout.decode().strip()
    json.dump(meta, open(meta_path, "w"), indent=1, sort_keys=True)
    return 0


if __name__ == "__main__":
    sys.exit(main())
