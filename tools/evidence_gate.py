#!/usr/bin/env python3
"""tools/evidence_gate.py — refuses (exit 1) unless every evidence file of a claimed property
describes a quiet quick run of the committed trees, the way a fresh restore would produce it:
valid against EVIDENCE.schema.json, 0 violations, written at /repo's current clean HEAD with
VERIF_SEED=1 / tier quick, and newer than every source file of the checks."""
import json
import os
import subprocess
import sys

VERIF = os.path.dirname(os.path.dirname(os.path.abspath(__file__)))
SCHEMA = "/root/.vp/EVIDENCE.schema.json"


def sh(*a):
    return subprocess.run(a, stdout=subprocess.PIPE).stdout.decode().strip()


def validator():
    try:
        import jsonschema
    except ImportError:
        # jsonschema lives in the tooling venv only
        import shutil
        vt = shutil.which("python3-vt")
        if vt and not os.environ.get("EVIDENCE_GATE_REEXEC"):
            os.environ["EVIDENCE_GATE_REEXEC"] = "1"
            os.execv(vt, [vt] + sys.argv)
        return None
    with open(SCHEMA) as f:
        return jsonschema.Draft202012Validator(json.load(f))


def newest_source():
    newest, which = 0.0, None
    roots = ["sim", "shim", os.path.join("toposim", "src"), "check", "setup.sh", "known_findings.json"]
    for r in roots:
        p = os.path.join(VERIF, r)
        files = [p] if os.path.isfile(p) else [
            os.path.join(d, f) for d, _, fs in os.walk(p) for f in fs
            if "__pycache__" not in d and not f.endswith(".pyc")]
        for f in files:
            m = os.path.getmtime(f)
            if m > newest:
                newest, which = m, f
    return newest, which


def main():
    bad = []
    head = sh("git", "-C", "/repo", "rev-parse", "--short", "HEAD")
    if sh("git", "-C", "/repo", "status", "--porcelain", "--untracked-files=no"):
        bad.append("/repo has uncommitted changes to tracked files")
    with open(os.path.join(VERIF, "MANIFEST.json")) as f:
        manifest = json.load(f)
    v = validator() if os.path.exists(SCHEMA) else None
    if v is None:
        print("evidence_gate: note - schema validation skipped (jsonschema or schema file missing)")
    src_m, src_f = newest_source()
    for c in manifest["checks"]:
        pid, path = c["property_id"], c["evidence_file"]
        try:
            with open(path) as f:
                d = json.load(f)
        except Exception as e:
            bad.append("%s: cannot read %s (%s)" % (pid, path, e))
            continue
        if v is not None:
            for err in v.iter_errors(d):
                bad.append("%s: schema: %s" % (pid, err.message[:200]))
        cov = d.get("coverage", {})
        if d.get("property_id") != pid:
            bad.append("%s: property_id is %r" % (pid, d.get("property_id")))
        if d.get("violations") != 0:
            bad.append("%s: violations=%r" % (pid, d.get("violations")))
        for k, val in cov.items():
            if k.startswith("violating") and val != 0:
                bad.append("%s: coverage.%s=%r" % (pid, k, val))
        if d.get("seed") != 1 or d.get("tier") != "quick":
            bad.append("%s: seed=%r tier=%r (want 1 / quick)" % (pid, d.get("seed"), d.get("tier")))
        if cov.get("repo_state") != head:
            bad.append("%s: written at repo_state=%r, /repo HEAD is %s" % (pid, cov.get("repo_state"), head))
        if d.get("level") != c["level_claimed"]["category"]:
            bad.append("%s: level %r, MANIFEST claims %r" % (pid, d.get("level"), c["level_claimed"]["category"]))
        if os.path.getmtime(path) < src_m:
            bad.append("%s: evidence is older than %s" % (pid, os.path.relpath(src_f, VERIF)))
    for b in bad:
        print("evidence_gate: " + b)
    print("evidence_gate: %s (%d checks, /repo HEAD %s)" % ("REFUSED" if bad else "ok", len(manifest["checks"]), head))
    return 1 if bad else 0


if __name__ == "__main__":
    sys.exit(main())
