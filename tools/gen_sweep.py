#!/usr/bin/env python3
"""Generator self-test: generate and render many programs and variants for several seeds without
compiling anything; any exception in the generator is a harness bug that would otherwise only
show as a HARNESS-ERROR in the middle of a check.  tools/gen_sweep.py [n_per_seed] [seeds]"""
import os
import random
import sys

sys.path.insert(0, os.path.dirname(os.path.dirname(os.path.abspath(__file__))))
from sim import c20, c21, c26, c28, common, gen  # noqa: E402


def main():
    n = int(sys.argv[1]) if len(sys.argv) > 1 else 3000
    seeds = [int(x) for x in sys.argv[2].split(",")] if len(sys.argv) > 2 else [1, 2, 20260921]
    for seed in seeds:
        for idx in range(n):
            prog, rnd = c20.program_for(seed, idx)
            gen.render(prog, gen.base_variant(prog))
            for _ in range(3):
                v = gen.place_imports(prog, gen.random_variant(prog, rnd, 3), rnd)
                gen.render(prog, v)
                gen.Variant.from_json(v.to_json())
        for idx in range(n):
            rnd = random.Random(common.sub_seed(seed, "c21-program", idx))
            c21.make_program(rnd)
            c21.random_world(rnd)
            c21.random_history(rnd)
        for idx in range(n):
            for mode in ("plain", "legal", "fault"):
                rnd = random.Random(common.sub_seed(seed, "c28-world", mode, idx))
                spec = c28.gen_world(rnd)
                c28.Model(spec).analyse()
        for idx in range(n // 4):
            c26.cyc_files(seed, idx)
        print("seed %d: %d programs of each kind generated without an exception" % (seed, n))
    return 0


if __name__ == "__main__":
    sys.exit(main())
