"""Hand-written property-breaking (and a few property-preserving) edits used to measure the
sensitivity of the checks. Each mutant is a list of (file, old text, new text) replacements that
is applied to a scratch worktree of /repo, never to /repo itself.

expect: "caught"    the named checks must report a violation
        "quiet"     negative control: the property still holds, the checks must stay silent
        "undecided" the edit makes the compiler reject (most of) the workload in every order alike:
                    C20 holds vacuously, and the check must say that it cannot decide (exit 2)
"""

TOPO = "crates/topo/src/lib.rs"
HIRTY = "crates/hir_ty/src/lib.rs"
MAIN = "crates/capy/src/main.rs"
BODY = "crates/hir/src/body.rs"
COMPTIME = "crates/codegen/src/compiler/comptime.rs"
GLOBALS = "crates/hir_ty/src/globals.rs"
FUNCTIONS = "crates/codegen/src/compiler/functions.rs"
TY = "crates/hir/src/common/ty.rs"
NAMES = "crates/hir/src/common/names.rs"
MANGLE = "crates/codegen/src/mangle.rs"

MUTANTS = [
    # ---------------------------------------------------------------- C26 (TopoSort)
    dict(id="topo-dup-registration", checks=["C26"], expect="caught",
         note="a dependency registered twice is counted twice, so its parent never becomes ready",
         edits=[(TOPO, """                if !e.into_mut().parents.insert(parent.clone()) {
                    // Already registered
                    return;
                }""", """                e.into_mut().parents.insert(parent.clone());""")]),
    dict(id="topo-in-cycle-any", checks=["C26"], expect="caught",
         note="in_cycle() true as soon as one item is blocked",
         edits=[(TOPO, "!self.is_empty() && self.top.values().all(|v| v.num_children != 0)",
                 "!self.is_empty() && self.top.values().any(|v| v.num_children != 0)")]),
    dict(id="topo-remove-no-decrement", checks=["C26"], expect="caught",
         note="completing an item does not release the items waiting for it",
         edits=[(TOPO, """                if let Some(y) = self.top.get_mut(s) {
                    y.num_children -= 1;
                }""", """                if let Some(_y) = self.top.get_mut(s) {}""")]),
    dict(id="topo-peek-all-le-1", checks=["C26"], expect="caught",
         note="peek_all offers items that still wait on one dependency",
         edits=[(TOPO, """    pub fn peek_all(&self) -> Result<Vec<&T>, CycleErr> {
        let result: Vec<_> = self
            .top
            .iter()
            .filter(|&(_, v)| v.num_children == 0)""", """    pub fn peek_all(&self) -> Result<Vec<&T>, CycleErr> {
        let result: Vec<_> = self
            .top
            .iter()
            .filter(|&(_, v)| v.num_children <= 1)""")]),
    dict(id="topo-self-dep-ignored", checks=["C26"], expect="caught",
         note="a dependency of an item on itself is dropped, the item is offered although it waits on a pending item",
         edits=[(TOPO, """        let parent = parent.into();
        let child = child.into();
""", """        let parent = parent.into();
        let child = child.into();
        if parent == child {
            self.top.entry(parent).or_insert_with(Dependencies::<T>::new);
            return;
        }
""")]),
    dict(id="topo-swap-remove", checks=["C26", "C20"], expect="quiet",
         note="negative control: removal changes the order of the remaining items only",
         edits=[(TOPO, "let result = self.top.shift_remove(child);", "let result = self.top.swap_remove(child);")]),
    dict(id="loop-no-remove-on-ok", checks=["C26"], expect="caught",
         note="round loop forgets to remove a finished lambda; only the recorded real histories see it",
         edits=[(HIRTY, """                        self.to_infer.remove(&inferrable);
                        #[cfg(capy_verif)]""", """                        if !matches!(inferrable, ConcreteLoc::Lambda(_))
                            || self.to_infer.len() % 7 != 3
                        {
                            self.to_infer.remove(&inferrable);
                        }
                        #[cfg(capy_verif)]""")]),
    dict(id="loop-first-dep-only", checks=["C26", "C20"], expect="quiet",
         note="negative control: only the first missing dependency is registered; the item is simply re-run more often",
         edits=[(HIRTY, "                        self.to_infer.insert_deps(inferrable, deps);",
                 "                        self.to_infer.insert_deps(inferrable, deps.into_iter().take(1));")]),
    # ---------------------------------------------------------------- C20
    dict(id="c20-revert-cyclic-fix", checks=["C20"], expect="caught",
         note="F-C20-1 comes back: cycle-breaking round offers every pending item",
         edits=[(TOPO, """            let on_cycle: Vec<&T> = self
                .top
                .keys()
                .filter(|start| {""", """            let on_cycle: Vec<&T> = self
                .top
                .keys()
                .filter(|start| {
                    if true {
                        return true;
                    }""")]),
    dict(id="c20-revert-alias-fix", checks=["C20"], expect="caught",
         note="F-C20-2 comes back: alias body looked up in the importing file",
         edits=[(GLOBALS, """                let old_bodies =
                    std::mem::replace(&mut self.bodies, &self.world_bodies[naive.file()]);""",
                 """                let old_bodies = self.bodies;""")]),
    dict(id="c20-cyclic-sort-reversed", checks=["C20"], expect="undecided",
         note="cyclic lambdas run before cyclic globals",
         edits=[(HIRTY, """                        (ConcreteLoc::Global(_), ConcreteLoc::Lambda(_)) => {
                            std::cmp::Ordering::Less
                        }
                        (ConcreteLoc::Lambda(_), ConcreteLoc::Global(_)) => {
                            std::cmp::Ordering::Greater
                        }""", """                        (ConcreteLoc::Global(_), ConcreteLoc::Lambda(_)) => {
                            std::cmp::Ordering::Greater
                        }
                        (ConcreteLoc::Lambda(_), ConcreteLoc::Global(_)) => {
                            std::cmp::Ordering::Less
                        }""")]),
    dict(id="c20-stale-signature-on-restart", checks=["C20"], expect="undecided",
         note="a global that yields keeps its NotYetResolved placeholder signature",
         edits=[(HIRTY, """            Err(why) => {
                global_ctx.tys.signatures.remove(&global.wrap());
                return Err(why);
            }
        };

        self.tys.signatures.insert(global.wrap(), ty);""", """            Err(why) => {
                return Err(why);
            }
        };

        self.tys.signatures.insert(global.wrap(), ty);""")]),
    dict(id="c20-initial-order-reversed", checks=["C20"], expect="quiet",
         note="negative control: the initial work list is seeded in reverse order",
         edits=[(HIRTY, """                        .map(|naive_loc| naive_loc.make_concrete(None))
                        .sorted()""", """                        .map(|naive_loc| naive_loc.make_concrete(None))
                        .sorted()
                        .rev()""")]),
    # ---------------------------------------------------------------- C21
    dict(id="c21-revert-padding-fix", checks=["C21"], expect="caught",
         note="F-C21-1 comes back",
         edits=[(COMPTIME, "                zero_padding(return_ty, &mut bytes);\n", "")]),
    dict(id="c21-random-state-source-files", checks=["C21"], expect="caught",
         note="source files kept in a std HashMap: diagnostics of several files come out in hash-seed order",
         edits=[(MAIN, "    let mut source_files = FxHashMap::default();",
                 "    let mut source_files = std::collections::HashMap::new();")]),
    dict(id="c21-object-not-truncated", checks=["C21"], expect="caught",
         note="object written without truncation: a larger stale object leaves a tail",
         edits=[(MAIN, """    fs::write(&object_file, bytes.as_slice()).unwrap_or_else(|why| {""",
                 """    fs::OpenOptions::new()
        .write(true)
        .create(true)
        .open(&object_file)
        .and_then(|mut f| f.write_all(bytes.as_slice()))
        .unwrap_or_else(|why| {""")]),
    dict(id="c21-pid-in-comptime-data", checks=["C21"], expect="caught",
         note="process id leaks into aggregate comptime results",
         edits=[(COMPTIME, "                zero_padding(return_ty, &mut bytes);\n",
                 "                zero_padding(return_ty, &mut bytes);\n                if bytes.len() > 24 {\n                    let last = bytes.len() - 1;\n                    bytes[last] ^= (std::process::id() & 1) as u8;\n                }\n")]),
    dict(id="c21-clock-in-diagnostics", checks=["C21"], expect="caught",
         note="elapsed time printed with a format the mask does not know",
         edits=[(MAIN, """        println!("\\nnot compiling due to previous errors");""",
                 """        println!("\\nnot compiling due to previous errors ({} ms)", compilation_start.elapsed().as_millis());""")]),
    # ---------------------------------------------------------------- C28
    dict(id="c28-outside-cwd-accepted", checks=["C28"], expect="caught",
         note="the location rule only looks at the module directory... and accepts everything else",
         edits=[(BODY, """            if !file.is_sub_dir_of(self.mod_dir)
                && !file.is_sub_dir_of(&env::current_dir().unwrap())
            {""", """            if !file.is_sub_dir_of(self.mod_dir)
                && !file.is_sub_dir_of(&env::current_dir().unwrap())
                && file.components().count() < 3
            {""")]),
    dict(id="c28-relative-to-cwd", checks=["C28"], expect="caught",
         note="imports resolved relative to the working directory instead of the importing file",
         edits=[(BODY, """            let file = env::current_dir()
                .unwrap()
                .join(self.file_name)
                .join("..")
                .join(file)
                .clean();""", """            let file = env::current_dir().unwrap().join(file).clean();""")]),
    dict(id="c28-contains-capy", checks=["C28"], expect="caught",
         note="extension rule weakened from ends_with to contains",
         edits=[(BODY, """        if !file.ends_with(".capy") {""", """        if !file.contains(".capy") {""")]),
    dict(id="c28-mod-name-any-alnum", checks=["C28"], expect="caught",
         note="module name accepted if any character is alphanumeric",
         edits=[(BODY, "if !file.chars().all(|ch| ch.is_ascii_alphanumeric()) {",
                 "if !file.chars().any(|ch| ch.is_ascii_alphanumeric()) {")]),
    dict(id="c28-no-dedup", checks=["C28"], expect="caught",
         note="a file reached twice is compiled twice (and import cycles never end)",
         edits=[(MAIN, """            if source_files.contains_key(&file_name) {
                continue;
            }
""", "")]),
    dict(id="c28-mod-file-not-checked", checks=["C28"], expect="caught",
         note="#mod accepted when src/ exists without mod.capy",
         edits=[(BODY, "if !self.fake_file_system && !mod_file_path.is_file() {",
                 "if !self.fake_file_system && !mod_file_path.is_file() && false {")]),
    dict(id="c28-subdir-by-string-prefix", checks=["C28"], expect="caught",
         note="is_sub_dir_of compares strings, so a sibling directory whose name extends the cwd's name counts as inside",
         edits=[("crates/hir/src/common/names.rs", """        let filter = |c: &Component| !matches!(c, Component::Prefix(_));

        let mut sub = self.components().filter(filter);

        base.components()
            .filter(filter)
            .all(|base| sub.next().is_some_and(|sub| sub == base))""",
                 """        self.to_string_lossy()
            .starts_with(base.to_string_lossy().as_ref())""")]),
    # ---------------------------------------------------------------- round 3: the later repairs come back
    dict(id="c21-revert-const-cast", checks=["C21"], expect="caught",
         note="F-C21-4 comes back: an array item of a narrower number type is copied with the item size of the array",
         edits=[(FUNCTIONS, """                    let item = self.cast_const_data(item, from_ty, item_ty);

                    let start = idx * item_stride as usize;
                    let len = item.len().min(item_size as usize);
                    array[start..start + len].copy_from_slice(&item[..len]);""",
                 """                    let _ = from_ty;
                    unsafe {
                        std::ptr::copy_nonoverlapping(
                            item.as_ptr(),
                            array.as_mut_ptr().add(idx * item_stride as usize),
                            item_size as usize,
                        );
                    }""")]),
    dict(id="c21-revert-inline-cast", checks=["C21"], expect="caught",
         note="F-C21-5 comes back: a global compiled inline is not cast to the global's type",
         edits=[(FUNCTIONS, """                } else {
                    self.cast(res, self.tys[self.loc][body], sig_ty)
                }
            };""", """                } else {
                    res
                }
            };""")]),
    dict(id="c20-revert-inline-address", checks=["C20"], expect="caught",
         note="F-C20-17 comes back: `^K` of a scalar global that is compiled inline yields the value, not an address",
         edits=[(FUNCTIONS, "            let res = if no_load && !sig_ty.is_aggregate() {",
                 "            let res = if false && no_load && !sig_ty.is_aggregate() {")]),
    dict(id="c20-revert-nested-lambda-args", checks=["C20"], expect="caught",
         note="F-C20-18 comes back: a function nested in a generic function has one location for all instantiations",
         edits=[(GLOBALS, """                                let lambda_loc =
                                    lambda_loc.make_concrete(self.loc.comptime_args());

                                self.init_new_concrete(
                                    lambda_loc,
                                    params,
                                    return_ty_expr,
                                    lambda_headers.param_tys,
                                    lambda_headers.return_ty,
                                );

                                return Err(vec![lambda_loc.wrap()]);
                            } else {""", """                                let lambda_loc = lambda_loc.make_concrete(None);

                                self.init_new_concrete(
                                    lambda_loc,
                                    params,
                                    return_ty_expr,
                                    lambda_headers.param_tys,
                                    lambda_headers.return_ty,
                                );

                                return Err(vec![lambda_loc.wrap()]);
                            } else {""")]),
    dict(id="c20-revert-const-data-loc", checks=["C20"], expect="caught",
         note="F-C20-6 comes back: const_data reads the type of `file` in `file.name` at the starting location",
         edits=[(GLOBALS, """            } => match self.tys[loc][*previous].as_ref() {
                Ty::File(file) => {
                    let ufqn = Fqn {""", """            } => match self.tys[self.loc][*previous].as_ref() {
                Ty::File(file) => {
                    let ufqn = Fqn {""")]),
    dict(id="c20-revert-enum-join", checks=["C20"], expect="caught",
         note="F-C20-7 comes back: two variants are joined into the most recently created enum with their uid",
         edits=[(TY, "Some((*get_enum_from_variants(*first_enum_uid, &[self, other])).clone())",
                 "Some((*get_enum_from_uid(*first_enum_uid)).clone())")]),
    dict(id="c28-revert-src", checks=["C28"], expect="caught",
         note="F-C28-1 comes back: the component before a second-level `src` is dropped for files outside modules too",
         edits=[(NAMES, "        let has_src = is_mod\n            && relative_path", "        let has_src = relative_path")]),
    dict(id="c28-revert-dot-escape", checks=["C28"], expect="caught",
         note="F-C28-2 comes back: '.' in a file name becomes '-'",
         edits=[(NAMES, """res.replace('\\\\', "\\\\\\\\").replace('.', "\\\\.").into()""", """res.replace('.', "-").into()""")]),
    dict(id="c28-revert-digit-marker", checks=["C28"], expect="caught",
         note="F-C28-3 comes back: no '.' before the kind letter of a part that begins with a digit",
         edits=[(MANGLE, """        mangled.push_str(&(part.text.len() + 2).to_string());
        mangled.push('.');""", """        mangled.push_str(&(part.text.len() + 1).to_string());""")]),
    dict(id="c28-revert-strip-last-only", checks=["C28"], expect="caught",
         note="F-C28-4 comes back: `.capy` is stripped from folder names too",
         edits=[(NAMES, "let res = if idx + 1 == num_components {", "let res = if idx + 1 <= num_components {")]),
    dict(id="c28-local-import-not-followed", checks=["C28"], expect="caught",
         note="imports found while a function body is lowered are forgotten again, so the driver's work list never reads a file that is only imported inside a function (a first version of this mutant, `if self.scopes.len() <= 1`, turned out to be equivalent: the scope stack is reset per lambda)",
         edits=[(BODY, """        let old_labels = mem::take(&mut self.label_kinds);

        assert!(self.inline_header_params.is_empty());""", """        let old_labels = mem::take(&mut self.label_kinds);
        let old_imports = self.bodies.imports.clone();

        assert!(self.inline_header_params.is_empty());"""),
                (BODY, """        self.label_kinds = old_labels;

        Expr::Lambda(""", """        self.label_kinds = old_labels;
        self.bodies.imports = old_imports;

        Expr::Lambda(""")]),
]
