#!/bin/bash
# tools/refresh_evidence.sh — the only way evidence files are produced for a commit.
# Reproduces what a fresh offline restore does: same environment, setup, each evidence file
# removed, the four quick commands one after the other; then gates the result
# (tools/evidence_gate.py). Run it after the last change to /repo and to the checks, then commit.
set -u
cd "$(dirname "$0")/.."
export CARGO_NET_OFFLINE=true GOPROXY=off PIP_NO_INDEX=1 VERIF_SEED=1 VERIF_TIER=quick
unset VERIF_REPO VERIF_TARGET VERIF_EVIDENCE_DIR VERIF_REPLAYS_DIR VERIF_WORKERS
if [ -n "$(git -C /repo status --porcelain --untracked-files=no)" ]; then
    echo "refresh_evidence: /repo has uncommitted changes to tracked files - commit or undo them first"; exit 2
fi
./setup.sh || { echo "refresh_evidence: setup failed"; exit 2; }
LOGS=$(mktemp -d /tmp/refresh-evidence.XXXXXX)
rc=0
for cmd in $(python3 -c "
import json
for c in json.load(open('MANIFEST.json'))['checks']: print(c['property_id'])"); do
    rm -f evidence/$cmd.json
    q=$(python3 -c "
import json,sys
for c in json.load(open('MANIFEST.json'))['checks']:
    if c['property_id']=='$cmd': print(c['quick_cmd'])")
    bash -c "$q" > $LOGS/$cmd.log 2>&1; e=$?
    echo "$cmd exit=$e  $(tail -1 $LOGS/$cmd.log)"
    if [ $e -ne 0 ] || grep -q '^VIOLATION' $LOGS/$cmd.log; then rc=1; echo "  see $LOGS/$cmd.log"; fi
done
python3 tools/evidence_gate.py || rc=1
[ $rc -eq 0 ] && rm -rf $LOGS
exit $rc
