#!/usr/bin/env python3
"""Sensitivity measurement: apply each mutant of tools/mutants.py to a scratch worktree of
/repo, run the checks it names against that worktree (VERIF_REPO/VERIF_TARGET), record whether
they reported a violation, undo. Results: notes/mutation-results.json.

  tools/run_mutants.py [--only id,id,...] [--keep]
"""
import json
import os
import subprocess
import sys
import time

HERE = os.path.dirname(os.path.abspath(__file__))
VERIF = os.path.dirname(HERE)
sys.path.insert(0, HERE)
from mutants import MUTANTS  # noqa: E402

WT = os.environ.get("MUT_WT", "/tmp/mut-wt")
TARGET = os.environ.get("MUT_TARGET", "/tmp/mut-target")
OUT = os.path.join(VERIF, "notes", "mutation-results.json")

SMALL = {"C20_PROGRAMS": "150", "C21_PROGRAMS": "250", "C28_SCALE": "0.4"}


def sh(cmd, **kw):
    return subprocess.run(cmd, stdout=subprocess.PIPE, stderr=subprocess.STDOUT, **kw)


def ensure_worktree():
    if not os.path.isdir(WT):
        r = sh(["git", "-C", "/repo", "worktree", "add", "--detach", WT, "HEAD"])
        if r.returncode:
            print(r.stdout.decode())
            sys.exit(2)
    sh(["git", "-C", WT, "checkout", "--detach", "-q",
        sh(["git", "-C", "/repo", "rev-parse", "HEAD"]).stdout.decode().strip()])
    sh(["git", "-C", WT, "checkout", "--", "."])


def apply(m):
    for path, old, new in m["edits"]:
        full = os.path.join(WT, path)
        with open(full) as f:
            text = f.read()
        if text.count(old) != 1:
            return "edit does not apply exactly once in %s (%d matches)" % (path, text.count(old))
        with open(full, "w") as f:
            f.write(text.replace(old, new))
    return None


def main():
    only = None
    if "--only" in sys.argv:
        only = set(sys.argv[sys.argv.index("--only") + 1].split(","))
    ensure_worktree()
    try:
        with open(OUT) as f:
            results = json.load(f)
    except FileNotFoundError:
        results = {}
    env = dict(os.environ)
    env.update(SMALL)
    env.update({"VERIF_REPO": WT, "VERIF_TARGET": TARGET,
                "VERIF_EVIDENCE_DIR": "/tmp/mut-evidence", "VERIF_REPLAYS_DIR": "/tmp/mut-replays",
                "CAPYSIM_SCRATCH": "/tmp/capysim-mut"})
    for m in MUTANTS:
        if only and m["id"] not in only:
            continue
        sh(["git", "-C", WT, "checkout", "--", "."])
        err = apply(m)
        entry = {"expect": m["expect"], "note": m["note"], "checks": {}, "repo_head":
                 sh(["git", "-C", "/repo", "rev-parse", "--short", "HEAD"]).stdout.decode().strip()}
        if err:
            entry["error"] = err
            results[m["id"]] = entry
            print("%-34s ERROR %s" % (m["id"], err))
            continue
        for chk in m["checks"]:
            t0 = time.time()
            r = sh([os.path.join(VERIF, "check"), chk, "--tier", "quick"], env=env, cwd=VERIF)
            out = r.stdout.decode(errors="replace")
            vio = [l for l in out.splitlines() if l.startswith("VIOLATION")]
            detail = [l.strip() for l in out.splitlines() if l.startswith("  ")][:3]
            entry["checks"][chk] = {"exit": r.returncode, "violations": len(vio), "first": detail,
                                    "wall_s": round(time.time() - t0), "tail": out.splitlines()[-1:] }
            verdict = "caught" if r.returncode == 1 else "quiet" if r.returncode == 0 else "undecided"
            ok = verdict == m["expect"]
            print("%-34s %-4s %-13s expect=%-6s %s %ds" % (m["id"], chk, verdict, m["expect"],
                                                          "OK" if ok else "<<<<< MISMATCH", time.time() - t0))
            sys.stdout.flush()
        results[m["id"]] = entry
        with open(OUT, "w") as f:
            json.dump(results, f, indent=1, sort_keys=True)
    sh(["git", "-C", WT, "checkout", "--", "."])
    if "--keep" not in sys.argv:
        sh(["git", "-C", "/repo", "worktree", "remove", "--force", WT])
        sh(["rm", "-rf", TARGET, "/tmp/mut-evidence", "/tmp/mut-replays", "/tmp/capysim-mut"])


if __name__ == "__main__":
    main()
