#!/usr/bin/env python3
"""Zero-alarm soak: run the quick tier of every check under several seeds on the current tree
and record exit status and VIOLATION lines (notes/soak-results.json). Evidence files written
during the soak go to a scratch directory, not to /verif/evidence.

  tools/soak.py [--seeds 1,2,3] [--checks C20,C21,C26,C28]
"""
import json
import os
import subprocess
import sys
import time

VERIF = os.path.dirname(os.path.dirname(os.path.abspath(__file__)))


def main():
    seeds = [1, 2, 3, 4, 5]
    checks = ["C26", "C28", "C21", "C20"]
    if "--seeds" in sys.argv:
        seeds = [int(x) for x in sys.argv[sys.argv.index("--seeds") + 1].split(",")]
    if "--checks" in sys.argv:
        checks = sys.argv[sys.argv.index("--checks") + 1].split(",")
    out_path = os.path.join(VERIF, "notes", "soak-results.json")
    try:
        results = json.load(open(out_path))
    except (FileNotFoundError, ValueError):
        results = {}
    env = dict(os.environ)
    env["VERIF_EVIDENCE_DIR"] = "/tmp/soak-evidence"
    env["VERIF_REPLAYS_DIR"] = os.path.join(VERIF, "replays", "soak")
    first = True
    for seed in seeds:
        for chk in checks:
            env["VERIF_SEED"] = str(seed)
            t0 = time.time()
            cmd = [os.path.join(VERIF, "check"), chk, "--tier", "quick"] + ([] if first else ["--no-build"])
            p = subprocess.run(cmd, cwd=VERIF, env=env, stdout=subprocess.PIPE, stderr=subprocess.STDOUT)
            out = p.stdout.decode(errors="replace")
            vio = [l for l in out.splitlines() if l.startswith("VIOLATION") or l.startswith("  ")]
            results["%s seed=%d" % (chk, seed)] = {
                "exit": p.returncode, "violations": vio[:6], "summary": out.splitlines()[-1:],
                "wall_s": round(time.time() - t0)}
            print("%s seed=%d exit=%d %ds %s" % (chk, seed, p.returncode, time.time() - t0,
                                                 out.splitlines()[-1] if out.splitlines() else ""))
            sys.stdout.flush()
            with open(out_path, "w") as f:
                json.dump(results, f, indent=1, sort_keys=True)
        first = False
    return 0


if __name__ == "__main__":
    sys.exit(main())
