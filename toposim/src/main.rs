//! toposim (engine E2): seeded history simulation of capy's inference scheduler.
//!
//! The *real* `topo::TopoSort` from /repo/crates/topo is driven through its public API
//! exactly the way `hir_ty::InferenceCtx::finish` drives it (one `extend`, then rounds of
//! `peek_all` / `peek_all_cyclic`, and per offered item either `remove` or `insert_deps`),
//! by a simulated checker whose every decision comes from one seeded PRNG. Every
//! observable API result is compared with a small executable reference model.
//!
//! Sub-commands
//!   gen     generate and check many histories (property C26, part a)
//!   replay  re-run one recorded/minimised history from a replay file
//!   trace   validate recorded histories of the real checker (hook H1) against the model and
//!           against a fresh TopoSort (property C26, part b)
//!
//! Exit status: 0 = everything explored agreed with the model, 1 = a violation was found
//! (a line `TOPOSIM-VIOLATION ...` is printed and a replay file written), 2 = harness error.

mod model;
mod sim;
mod trace;

use std::collections::HashSet;
use std::path::PathBuf;

use serde_json::{json, Value};

use sim::{History, Outcome, Params, Stats};

fn usage() -> ! {
    eprintln!(
        "usage:\n  toposim gen --seed N --histories N [--max-items N] [--max-rounds N] [--threads N] \
         [--replay-dir DIR] [--offprotocol] [--out FILE]\n  toposim replay FILE\n  toposim trace DIR|FILE... [--out FILE]"
    );
    std::process::exit(2)
}

fn arg_val(args: &[String], name: &str) -> Option<String> {
    args.iter()
        .position(|a| a == name)
        .and_then(|i| args.get(i + 1).cloned())
}

fn arg_u64(args: &[String], name: &str, default: u64) -> u64 {
    match arg_val(args, name) {
        Some(v) => v.parse().unwrap_or_else(|_| {
            eprintln!("bad value for {name}: {v}");
            std::process::exit(2)
        }),
        None => default,
    }
}

fn main() {
    let args: Vec<String> = std::env::args().skip(1).collect();
    if args.is_empty() {
        usage();
    }
    let code = match args[0].as_str() {
        "gen" => cmd_gen(&args[1..]),
        "replay" => cmd_replay(&args[1..]),
        "trace" => trace::cmd_trace(&args[1..]),
        _ => usage(),
    };
    std::process::exit(code);
}

fn cmd_gen(args: &[String]) -> i32 {
    let seed = arg_u64(args, "--seed", 1);
    let histories = arg_u64(args, "--histories", 100_000);
    let max_items = arg_u64(args, "--max-items", 4) as u32;
    let max_rounds = arg_u64(args, "--max-rounds", 8) as u32;
    let threads = arg_u64(
        args,
        "--threads",
        std::thread::available_parallelism()
            .map(|n| n.get() as u64)
            .unwrap_or(4),
    )
    .max(1) as usize;
    let offprotocol = args.iter().any(|a| a == "--offprotocol");
    let replay_dir = PathBuf::from(
        arg_val(args, "--replay-dir").unwrap_or_else(|| "/verif/replays/C26".to_string()),
    );
    let out = arg_val(args, "--out");
    if !(1..=7).contains(&max_items) {
        eprintln!("--max-items must be within 1..=7");
        return 2;
    }

    let params = Params {
        seed,
        max_items,
        max_rounds,
        offprotocol,
    };

    let t0 = std::time::Instant::now();

    // Each worker takes the history indices congruent to its number. All results are either
    // commutative sums / set unions or sorted by history index afterwards, so the outcome does
    // not depend on the number of threads.
    struct WorkerOut {
        stats: Stats,
        states: HashSet<u64>,
        hashes: HashSet<u64>,
        nontrivial_hashes: HashSet<u64>,
        violations: Vec<(u64, History, sim::Violation)>,
        samples: Vec<(u64, Value)>,
    }

    const HASH_CAP_PER_WORKER: usize = 4_000_000;

    let outs: Vec<WorkerOut> = std::thread::scope(|scope| {
        let handles: Vec<_> = (0..threads)
            .map(|w| {
                let params = params.clone();
                scope.spawn(move || {
                    let mut o = WorkerOut {
                        stats: Stats::default(),
                        states: HashSet::new(),
                        hashes: HashSet::new(),
                        nontrivial_hashes: HashSet::new(),
                        violations: Vec::new(),
                        samples: Vec::new(),
                    };
                    let mut idx = w as u64;
                    while idx < histories {
                        let (history, outcome) = sim::generate_and_run(&params, idx, &mut o.states);
                        o.stats.add(&outcome.stats);
                        if o.hashes.len() < HASH_CAP_PER_WORKER {
                            o.hashes.insert(outcome.hash);
                        } else {
                            o.stats.hash_cap_hit = 1;
                        }
                        if outcome.stats.blocked_rounds > 0 {
                            if o.nontrivial_hashes.len() < HASH_CAP_PER_WORKER {
                                o.nontrivial_hashes.insert(outcome.hash);
                            }
                            if o.samples.len() < 3 && outcome.stats.cyclic_rounds > 0 {
                                o.samples.push((idx, sim::history_json(&history, &outcome)));
                            }
                        }
                        if let Some(v) = outcome.violation {
                            if o.violations.len() < 8 {
                                o.violations.push((idx, history, v));
                            }
                        }
                        idx += threads as u64;
                    }
                    o
                })
            })
            .collect();
        handles.into_iter().map(|h| h.join().unwrap()).collect()
    });

    let mut stats = Stats::default();
    let mut states: HashSet<u64> = HashSet::new();
    let mut hashes: HashSet<u64> = HashSet::new();
    let mut nontrivial: HashSet<u64> = HashSet::new();
    let mut violations = Vec::new();
    let mut samples = Vec::new();
    for o in outs {
        stats.add(&o.stats);
        states.extend(o.states);
        hashes.extend(o.hashes);
        nontrivial.extend(o.nontrivial_hashes);
        violations.extend(o.violations);
        samples.extend(o.samples);
    }
    violations.sort_by_key(|(idx, _, _)| *idx);
    samples.sort_by_key(|(idx, _)| *idx);
    samples.truncate(3);

    // minimise and write replay files: the first violation of each kind
    let mut reported = Vec::new();
    let mut seen_kinds = HashSet::new();
    for (idx, history, violation) in &violations {
        if !seen_kinds.insert(violation.kind.clone()) {
            continue;
        }
        let (small, small_violation) = sim::shrink(history, violation);
        let outcome = sim::run_script(&small, &mut HashSet::new());
        let file = replay_dir.join(format!(
            "toposim-seed{}-h{}-{}.json",
            seed, idx, violation.kind
        ));
        let doc = json!({
            "format": "toposim-replay-v1",
            "property": "C26",
            "seed": seed,
            "history_index": idx,
            "params": {"max_items": max_items, "max_rounds": max_rounds, "offprotocol": offprotocol},
            "violation": {"kind": small_violation.kind, "detail": small_violation.detail, "at_event": small_violation.at_event},
            "history": sim::history_to_json(&small),
            "events": outcome.events,
            "original_history": sim::history_to_json(history),
            "original_violation": {"kind": violation.kind, "detail": violation.detail},
        });
        if let Err(e) = std::fs::create_dir_all(&replay_dir)
            .and_then(|_| std::fs::write(&file, serde_json::to_string_pretty(&doc).unwrap()))
        {
            eprintln!("cannot write replay file {}: {e}", file.display());
            return 2;
        }
        println!(
            "TOPOSIM-VIOLATION kind={} history={} replay={} detail={}",
            small_violation.kind,
            idx,
            file.display(),
            small_violation.detail
        );
        reported.push(json!({"kind": small_violation.kind, "detail": small_violation.detail, "history_index": idx, "replay": file.display().to_string()}));
    }

    let wall = t0.elapsed().as_secs_f64();
    let summary = json!({
        "mode": if offprotocol {"offprotocol (non-binding)"} else {"protocol"},
        "seed": seed,
        "histories": histories,
        "threads": threads,
        "max_items": max_items,
        "max_rounds": max_rounds,
        "wall_s": wall,
        "histories_per_hour": (histories as f64 / wall.max(1e-9) * 3600.0) as u64,
        "stats": stats.to_json(),
        "distinct_model_states": states.len(),
        "distinct_history_hashes": hashes.len(),
        "distinct_nontrivial_history_hashes": nontrivial.len(),
        "distinct_counts_are_lower_bounds": stats.hash_cap_hit > 0,
        "violations_found": violations.len(),
        "violations": reported,
        "samples": samples.into_iter().map(|(_, v)| v).collect::<Vec<_>>(),
    });
    let text = serde_json::to_string_pretty(&summary).unwrap();
    match out {
        Some(path) => {
            if let Err(e) = std::fs::write(&path, &text) {
                eprintln!("cannot write {path}: {e}");
                return 2;
            }
        }
        None => println!("{text}"),
    }
    if violations.is_empty() {
        0
    } else {
        1
    }
}

fn cmd_replay(args: &[String]) -> i32 {
    let Some(path) = args.first() else { usage() };
    let text = match std::fs::read_to_string(path) {
        Ok(t) => t,
        Err(e) => {
            eprintln!("cannot read {path}: {e}");
            return 2;
        }
    };
    let doc: Value = match serde_json::from_str(&text) {
        Ok(v) => v,
        Err(e) => {
            eprintln!("bad replay file {path}: {e}");
            return 2;
        }
    };
    let Some(history) = sim::history_from_json(&doc["history"]) else {
        eprintln!("bad replay file {path}: no usable history");
        return 2;
    };
    let Outcome {
        violation, events, ..
    } = sim::run_script(&history, &mut HashSet::new());
    for e in &events {
        println!("  {e}");
    }
    match violation {
        Some(v) => {
            println!(
                "TOPOSIM-VIOLATION kind={} replay={} detail={}",
                v.kind, path, v.detail
            );
            let expected_kind = doc["violation"]["kind"].as_str().unwrap_or("");
            if !expected_kind.is_empty() && expected_kind != v.kind {
                println!("note: replay file recorded kind={expected_kind}");
            }
            1
        }
        None => {
            println!("replay: history agrees with the model (no violation)");
            0
        }
    }
}
