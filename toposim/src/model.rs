//! Executable reference model of the inference scheduler, written from the text of
//! property C26 and *not* from `topo::TopoSort`.
//!
//! `pending`  the items that have been registered and have not completed since
//!            (kept in insertion order only to print nicely; it is used as a set)
//! `edges`    (p, c): p registered a dependency on c, and neither has completed since

use std::collections::BTreeSet;

#[derive(Clone, Default, Debug)]
pub struct Model<T: Ord + Clone> {
    pub pending: Vec<T>,
    pub edges: BTreeSet<(T, T)>,
    pub completed: BTreeSet<T>,
}

impl<T: Ord + Clone> Model<T> {
    pub fn new() -> Self {
        Model {
            pending: Vec::new(),
            edges: BTreeSet::new(),
            completed: BTreeSet::new(),
        }
    }

    pub fn is_pending(&self, x: &T) -> bool {
        self.pending.contains(x)
    }

    pub fn add(&mut self, x: T) {
        if !self.is_pending(&x) {
            self.completed.remove(&x);
            self.pending.push(x);
        }
    }

    /// `p` says it has to wait for `c`
    /// returns true if that edge was new
    pub fn register(&mut self, p: T, c: T) -> bool {
        self.add(c.clone());
        self.add(p.clone());
        self.edges.insert((p, c))
    }

    /// returns false if `x` was not pending
    pub fn complete(&mut self, x: &T) -> bool {
        let Some(pos) = self.pending.iter().position(|y| y == x) else {
            return false;
        };
        self.pending.remove(pos);
        self.edges.retain(|(p, c)| p != x && c != x);
        self.completed.insert(x.clone());
        true
    }

    pub fn waits(&self, x: &T) -> bool {
        self.edges.iter().any(|(p, _)| p == x)
    }

    /// the pending items all of whose registered dependencies have completed
    pub fn ready(&self) -> BTreeSet<T> {
        self.pending
            .iter()
            .filter(|x| !self.waits(x))
            .cloned()
            .collect()
    }

    /// every pending item still waits on a pending item
    pub fn cycle(&self) -> bool {
        !self.pending.is_empty() && self.pending.iter().all(|x| self.waits(x))
    }

    pub fn pending_set(&self) -> BTreeSet<T> {
        self.pending.iter().cloned().collect()
    }
}
