//! The simulated checker: drives the real `TopoSort<u32>` the way `InferenceCtx::finish`
//! does, with all decisions taken from a seeded PRNG (generation) or a recorded script
//! (replay / minimisation), and checks every observable against the reference model.

use std::collections::{BTreeSet, HashSet};

use serde_json::{json, Value};
use topo::TopoSort;

use crate::model::Model;

// ---------------------------------------------------------------------------------------
// PRNG (splitmix64): one integer decides everything

#[derive(Clone)]
pub struct Rng(u64);

impl Rng {
    pub fn new(seed: u64) -> Self {
        Rng(seed)
    }
    pub fn next(&mut self) -> u64 {
        self.0 = self.0.wrapping_add(0x9E37_79B9_7F4A_7C15);
        let mut z = self.0;
        z = (z ^ (z >> 30)).wrapping_mul(0xBF58_476D_1CE4_E5B9);
        z = (z ^ (z >> 27)).wrapping_mul(0x94D0_49BB_1331_11EB);
        z ^ (z >> 31)
    }
    pub fn below(&mut self, n: u64) -> u64 {
        if n == 0 {
            0
        } else {
            self.next() % n
        }
    }
    /// true with probability pct/100
    pub fn pct(&mut self, pct: u64) -> bool {
        self.below(100) < pct
    }
}

pub fn mix(seed: u64, idx: u64) -> u64 {
    let mut r = Rng::new(seed ^ idx.wrapping_mul(0xD6E8_FEB8_6659_FD93));
    r.next();
    r.next()
}

// ---------------------------------------------------------------------------------------

#[derive(Clone)]
pub struct Params {
    pub seed: u64,
    pub max_items: u32,
    pub max_rounds: u32,
    /// also generate steps outside the checker's usage protocol (dependencies on completed
    /// items). Mismatches in this mode are information only; the property does not quantify
    /// over such histories.
    pub offprotocol: bool,
}

#[derive(Clone, Debug, PartialEq)]
pub enum Decision {
    Complete,
    Deps(Vec<u32>),
}

/// how the simulated checker orders a cycle-breaking round (the real one sorts it)
#[derive(Clone, Copy, Debug, PartialEq)]
pub enum CycOrder {
    AsOffered,
    Ascending,
    Descending,
}

#[derive(Clone, Debug)]
pub struct History {
    pub universe: u32,
    pub init: Vec<u32>,
    /// consumed one per offered item, in the order items are run; once it is used up every
    /// offered item completes (drain)
    pub script: Vec<Decision>,
    pub cyc_order: CycOrder,
    pub offprotocol: bool,
}

#[derive(Clone, Debug)]
pub struct Violation {
    pub kind: String,
    pub detail: String,
    pub at_event: usize,
}

#[derive(Clone, Default, Debug)]
pub struct Stats {
    pub histories: u64,
    pub api_calls: u64,
    pub rounds: u64,
    pub blocked_rounds: u64,
    pub cyclic_rounds: u64,
    pub cycle_breaking_completions: u64,
    pub completions: u64,
    pub registrations: u64,
    pub duplicate_registrations: u64,
    pub self_deps: u64,
    pub new_item_registrations: u64,
    pub deps_on_same_round_items: u64,
    pub offprotocol_steps: u64,
    pub drained_histories: u64,
    pub emptied_histories: u64,
    pub max_items_seen: u64,
    pub hash_cap_hit: u64,
}

impl Stats {
    pub fn add(&mut self, o: &Stats) {
        self.histories += o.histories;
        self.api_calls += o.api_calls;
        self.rounds += o.rounds;
        self.blocked_rounds += o.blocked_rounds;
        self.cyclic_rounds += o.cyclic_rounds;
        self.cycle_breaking_completions += o.cycle_breaking_completions;
        self.completions += o.completions;
        self.registrations += o.registrations;
        self.duplicate_registrations += o.duplicate_registrations;
        self.self_deps += o.self_deps;
        self.new_item_registrations += o.new_item_registrations;
        self.deps_on_same_round_items += o.deps_on_same_round_items;
        self.offprotocol_steps += o.offprotocol_steps;
        self.drained_histories += o.drained_histories;
        self.emptied_histories += o.emptied_histories;
        self.max_items_seen = self.max_items_seen.max(o.max_items_seen);
        self.hash_cap_hit = self.hash_cap_hit.max(o.hash_cap_hit);
    }

    pub fn to_json(&self) -> Value {
        json!({
            "histories": self.histories,
            "api_calls": self.api_calls,
            "rounds": self.rounds,
            "blocked_rounds": self.blocked_rounds,
            "cyclic_rounds": self.cyclic_rounds,
            "cycle_breaking_completions": self.cycle_breaking_completions,
            "completions": self.completions,
            "registrations": self.registrations,
            "duplicate_registrations": self.duplicate_registrations,
            "self_deps": self.self_deps,
            "new_item_registrations": self.new_item_registrations,
            "deps_on_same_round_items": self.deps_on_same_round_items,
            "offprotocol_steps": self.offprotocol_steps,
            "drained_histories": self.drained_histories,
            "emptied_histories": self.emptied_histories,
            "max_items_in_one_history": self.max_items_seen,
        })
    }
}

pub struct Outcome {
    pub stats: Stats,
    pub violation: Option<Violation>,
    pub hash: u64,
    pub events: Vec<String>,
}

// ---------------------------------------------------------------------------------------
// deciders

trait Decider {
    fn begin_round(&mut self) {}
    fn decide(&mut self, item: u32, cyclic_round: bool, model: &Model<u32>, universe: u32)
        -> Decision;
}

struct ScriptDecider<'a> {
    script: &'a [Decision],
    pos: usize,
}

impl Decider for ScriptDecider<'_> {
    fn decide(&mut self, _: u32, _: bool, _: &Model<u32>, _: u32) -> Decision {
        let d = self.script.get(self.pos).cloned().unwrap_or(Decision::Complete);
        self.pos += 1;
        d
    }
}

/// swarm-style knobs, re-drawn for every history
struct RandomDecider {
    rng: Rng,
    budget: u32,
    used: u32,
    p_complete: u64,
    p_cyc_complete: u64,
    max_fanout: u64,
    p_new_item: u64,
    p_self: u64,
    p_dup: u64,
    p_offprotocol: u64,
    recorded: Vec<Decision>,
}

impl Decider for RandomDecider {
    fn begin_round(&mut self) {
        self.used += 1;
    }
    fn decide(
        &mut self,
        item: u32,
        cyclic_round: bool,
        model: &Model<u32>,
        universe: u32,
    ) -> Decision {
        if self.used > self.budget {
            // out of budget: drain, nothing is recorded so the script simply ends here
            return Decision::Complete;
        }
        let p = if cyclic_round {
            self.p_cyc_complete
        } else {
            self.p_complete
        };
        let d = if self.rng.pct(p) {
            Decision::Complete
        } else {
            // candidates: every item that has not completed (pending or never seen)
            let mut deps = Vec::new();
            let fanout = 1 + self.rng.below(self.max_fanout);
            for _ in 0..fanout {
                let want_new = self.rng.pct(self.p_new_item);
                let want_self = self.rng.pct(self.p_self);
                let want_off = self.p_offprotocol > 0 && self.rng.pct(self.p_offprotocol);
                let cands: Vec<u32> = if want_off && !model.completed.is_empty() {
                    model.completed.iter().copied().collect()
                } else if want_self {
                    vec![item]
                } else if want_new {
                    (0..universe)
                        .filter(|x| !model.is_pending(x) && !model.completed.contains(x))
                        .collect()
                } else {
                    model.pending.iter().copied().filter(|x| *x != item).collect()
                };
                let cands = if cands.is_empty() {
                    (0..universe)
                        .filter(|x| !model.completed.contains(x))
                        .collect()
                } else {
                    cands
                };
                if cands.is_empty() {
                    continue;
                }
                let c = cands[self.rng.below(cands.len() as u64) as usize];
                deps.push(c);
                if self.rng.pct(self.p_dup) {
                    // the same dependency delivered twice in one list
                    deps.push(c);
                }
            }
            if deps.is_empty() {
                Decision::Complete
            } else {
                Decision::Deps(deps)
            }
        };
        self.recorded.push(d.clone());
        d
    }
}

// ---------------------------------------------------------------------------------------

pub fn generate_and_run(params: &Params, idx: u64, states: &mut HashSet<u64>) -> (History, Outcome) {
    let mut rng = Rng::new(mix(params.seed, idx));
    let universe = 1 + rng.below(params.max_items as u64) as u32;
    // initial `extend`: a non-empty seeded subset in a seeded order
    let mut all: Vec<u32> = (0..universe).collect();
    for i in (1..all.len()).rev() {
        let j = rng.below(i as u64 + 1) as usize;
        all.swap(i, j);
    }
    let n_init = 1 + rng.below(universe as u64) as usize;
    let init: Vec<u32> = all[..n_init].to_vec();
    let cyc_order = match rng.below(3) {
        0 => CycOrder::AsOffered,
        1 => CycOrder::Ascending,
        _ => CycOrder::Descending,
    };
    // budget in rounds; afterwards the drain phase completes everything that is offered
    let budget = 1 + rng.below(params.max_rounds as u64) as u32;
    let complete_choices = [15u64, 30, 50, 70, 90];
    let cyc_choices = [0u64, 10, 35, 60, 100];
    let mut decider = RandomDecider {
        p_complete: complete_choices[rng.below(5) as usize],
        p_cyc_complete: cyc_choices[rng.below(5) as usize],
        max_fanout: 1 + rng.below(3),
        p_new_item: [0u64, 10, 30, 60][rng.below(4) as usize],
        p_self: [0u64, 0, 5, 20][rng.below(4) as usize],
        p_dup: [0u64, 5, 25][rng.below(3) as usize],
        p_offprotocol: if params.offprotocol { 15 } else { 0 },
        budget,
        used: 0,
        recorded: Vec::new(),
        rng,
    };
    let mut history = History {
        universe,
        init,
        script: Vec::new(),
        cyc_order,
        offprotocol: params.offprotocol,
    };
    let mut outcome = run(&history, &mut decider, states, budget + universe + 2);
    if decider.used > decider.budget {
        outcome.stats.drained_histories += 1;
    }
    history.script = decider.recorded;
    (history, outcome)
}

pub fn run_script(history: &History, states: &mut HashSet<u64>) -> Outcome {
    let mut decider = ScriptDecider {
        script: &history.script,
        pos: 0,
    };
    // the script bounds the number of decisions; afterwards everything completes, which takes
    // at most one round per item
    let max_rounds = history.script.len() as u32 + history.universe + 2;
    run(history, &mut decider, states, max_rounds)
}

fn state_code(model: &Model<u32>) -> u64 {
    let mut code = 0u64;
    for x in &model.pending {
        code |= 1 << x;
    }
    for (p, c) in &model.edges {
        code |= 1 << (8 + p * 7 + c);
    }
    code
}

fn fnv(h: &mut u64, bytes: &[u8]) {
    for b in bytes {
        *h ^= *b as u64;
        *h = h.wrapping_mul(0x0000_0100_0000_01B3);
    }
}

fn fmt_set(s: &BTreeSet<u32>) -> String {
    format!("{:?}", s.iter().collect::<Vec<_>>())
}

fn run(
    history: &History,
    decider: &mut dyn Decider,
    states: &mut HashSet<u64>,
    max_rounds: u32,
) -> Outcome {
    let mut stats = Stats {
        histories: 1,
        ..Default::default()
    };
    let mut events: Vec<String> = Vec::new();
    let mut hash = 0xcbf2_9ce4_8422_2325u64;
    let mut violation: Option<Violation> = None;

    macro_rules! ev {
        ($($arg:tt)*) => {{
            let s = format!($($arg)*);
            fnv(&mut hash, s.as_bytes());
            events.push(s);
        }};
    }
    macro_rules! fail {
        ($kind:expr, $($arg:tt)*) => {{
            if violation.is_none() {
                violation = Some(Violation { kind: $kind.to_string(), detail: format!($($arg)*), at_event: events.len() });
            }
        }};
    }

    let mut topo: TopoSort<u32> = TopoSort::new();
    let mut model: Model<u32> = Model::new();

    ev!("extend {:?}", history.init);
    topo.extend(history.init.iter().copied());
    for x in &history.init {
        model.add(*x);
    }
    stats.api_calls += 1;
    stats.max_items_seen = history.universe as u64;
    states.insert(state_code(&model));

    let mut round = 0u32;
    'rounds: loop {
        // --- observations every round starts with -------------------------------------
        stats.api_calls += 2;
        if topo.len() != model.pending.len() {
            fail!(
                "len-mismatch",
                "len() = {} but {} items are pending {:?}",
                topo.len(),
                model.pending.len(),
                model.pending
            );
            break;
        }
        if topo.is_empty() != model.pending.is_empty() {
            fail!(
                "is-empty-mismatch",
                "is_empty() = {} but pending = {:?}",
                topo.is_empty(),
                model.pending
            );
            break;
        }
        if model.pending.is_empty() {
            // the schedule emptied; the API must agree in every view
            stats.api_calls += 3;
            match topo.peek_all() {
                Ok(l) if l.is_empty() => {}
                Ok(l) => fail!(
                    "offer-after-empty",
                    "peek_all() offers {:?} although every item completed",
                    l
                ),
                Err(_) => fail!(
                    "cycle-after-empty",
                    "peek_all() reports a cycle although every item completed"
                ),
            }
            if topo.in_cycle() || topo.peek_all_cyclic().is_some() {
                fail!(
                    "cycle-after-empty",
                    "in_cycle()/peek_all_cyclic() report a cycle although every item completed"
                );
            }
            stats.emptied_histories += 1;
            ev!("empty");
            break;
        }
        if round >= max_rounds {
            fail!(
                "does-not-empty",
                "{} rounds were run, the last {} of them completing every offered item, and {:?} is still pending",
                round,
                history.universe + 2,
                model.pending
            );
            break;
        }
        round += 1;
        stats.rounds += 1;
        decider.begin_round();

        let ready = model.ready();
        let expect_cycle = model.cycle();
        if ready.len() < model.pending.len() {
            stats.blocked_rounds += 1;
        }

        stats.api_calls += 3;
        let peeked: Result<Vec<u32>, ()> = topo
            .peek_all()
            .map(|l| l.into_iter().copied().collect())
            .map_err(|_| ());
        let in_cycle = topo.in_cycle();
        let cyclic: Option<Vec<u32>> = topo
            .peek_all_cyclic()
            .map(|l| l.into_iter().copied().collect());

        let offered: Vec<u32> = match (&peeked, expect_cycle) {
            (Ok(list), false) => {
                let as_set: BTreeSet<u32> = list.iter().copied().collect();
                if as_set.len() != list.len() {
                    fail!("offered-twice", "peek_all() = {:?} lists an item twice", list);
                    break;
                }
                if as_set != ready {
                    let missing: BTreeSet<u32> = ready.difference(&as_set).copied().collect();
                    let extra: BTreeSet<u32> = as_set.difference(&ready).copied().collect();
                    if !extra.is_empty() {
                        fail!(
                            "offered-not-ready",
                            "round {}: peek_all() = {:?} but the ready items are {}; {} offered although {}",
                            round,
                            list,
                            fmt_set(&ready),
                            fmt_set(&extra),
                            if extra.iter().any(|x| !model.is_pending(x)) { "not pending" } else { "still waiting on a pending item" }
                        );
                    } else {
                        fail!(
                            "ready-not-offered",
                            "round {}: peek_all() = {:?} but the ready items are {}; {} not offered",
                            round,
                            list,
                            fmt_set(&ready),
                            fmt_set(&missing)
                        );
                    }
                    break;
                }
                ev!("round ok {:?}", {
                    let mut l = list.clone();
                    l.sort();
                    l
                });
                list.clone()
            }
            (Ok(list), true) => {
                fail!(
                    "cycle-not-reported",
                    "round {}: every pending item waits on a pending item (pending {:?}, edges {:?}) but peek_all() = Ok({:?})",
                    round,
                    model.pending,
                    model.edges,
                    list
                );
                break;
            }
            (Err(()), false) => {
                fail!(
                    "spurious-cycle",
                    "round {}: peek_all() reports a cycle but {} are ready (pending {:?}, edges {:?})",
                    round,
                    fmt_set(&ready),
                    model.pending,
                    model.edges
                );
                break;
            }
            (Err(()), true) => {
                stats.cyclic_rounds += 1;
                match &cyclic {
                    None => {
                        fail!(
                            "cyclic-list-missing",
                            "round {}: peek_all() reports a cycle but peek_all_cyclic() is None",
                            round
                        );
                        break;
                    }
                    Some(list) => {
                        let as_set: BTreeSet<u32> = list.iter().copied().collect();
                        if list.is_empty() {
                            fail!("cyclic-list-empty", "round {}: peek_all_cyclic() is empty", round);
                            break;
                        }
                        if as_set.len() != list.len() {
                            fail!(
                                "offered-twice",
                                "round {}: peek_all_cyclic() = {:?} lists an item twice",
                                round,
                                list
                            );
                            break;
                        }
                        if !as_set.is_subset(&model.pending_set()) {
                            fail!(
                                "offered-not-pending",
                                "round {}: peek_all_cyclic() = {:?} but pending is {:?}",
                                round,
                                list,
                                model.pending
                            );
                            break;
                        }
                        let mut l = list.clone();
                        match history.cyc_order {
                            CycOrder::AsOffered => {}
                            CycOrder::Ascending => l.sort(),
                            CycOrder::Descending => {
                                l.sort();
                                l.reverse()
                            }
                        }
                        ev!("round cycle {:?}", {
                            let mut s = l.clone();
                            s.sort();
                            s
                        });
                        l
                    }
                }
            }
        };
        // the cycle indicators have to agree with each other and with the model
        if in_cycle != expect_cycle {
            fail!(
                "in-cycle-mismatch",
                "round {}: in_cycle() = {} but pending {:?}, edges {:?}",
                round,
                in_cycle,
                model.pending,
                model.edges
            );
            break;
        }
        if cyclic.is_some() != expect_cycle {
            fail!(
                "cyclic-list-mismatch",
                "round {}: peek_all_cyclic().is_some() = {} but pending {:?}, edges {:?}",
                round,
                cyclic.is_some(),
                model.pending,
                model.edges
            );
            break;
        }

        // --- run every offered item ----------------------------------------------------
        let offered_set: BTreeSet<u32> = offered.iter().copied().collect();
        for item in offered {
            let decision = decider.decide(item, expect_cycle, &model, history.universe);
            // keep scripts inside the usage protocol whatever minimisation did to them:
            // dependencies only on items that have not completed, all inside the universe
            let decision = match decision {
                Decision::Complete => Decision::Complete,
                Decision::Deps(deps) => {
                    let deps: Vec<u32> = deps
                        .into_iter()
                        .filter(|d| *d < history.universe)
                        .filter(|d| history.offprotocol || !model.completed.contains(d))
                        .collect();
                    if deps.is_empty() {
                        Decision::Complete
                    } else {
                        Decision::Deps(deps)
                    }
                }
            };
            match decision {
                Decision::Complete => {
                    if model.waits(&item) {
                        stats.cycle_breaking_completions += 1;
                    }
                    stats.completions += 1;
                    stats.api_calls += 1;
                    ev!("complete {}", item);
                    let existed = topo.remove(&item);
                    let was_pending = model.complete(&item);
                    if existed != was_pending {
                        fail!(
                            "remove-mismatch",
                            "remove({}) returned {} but the item was{} pending",
                            item,
                            existed,
                            if was_pending { "" } else { " not" }
                        );
                        break 'rounds;
                    }
                }
                Decision::Deps(deps) => {
                    ev!("deps {} {:?}", item, deps);
                    stats.api_calls += 1;
                    topo.insert_deps(item, deps.iter().copied());
                    for d in &deps {
                        stats.registrations += 1;
                        if *d == item {
                            stats.self_deps += 1;
                        }
                        if model.completed.contains(d) {
                            stats.offprotocol_steps += 1;
                        } else if !model.is_pending(d) {
                            stats.new_item_registrations += 1;
                        }
                        if offered_set.contains(d) && *d != item {
                            stats.deps_on_same_round_items += 1;
                        }
                        if !model.register(item, *d) {
                            stats.duplicate_registrations += 1;
                        }
                    }
                }
            }
            states.insert(state_code(&model));
            stats.api_calls += 2;
            if topo.len() != model.pending.len() || topo.is_empty() != model.pending.is_empty() {
                fail!(
                    "len-mismatch",
                    "after the last step len() = {}, is_empty() = {} but pending = {:?}",
                    topo.len(),
                    topo.is_empty(),
                    model.pending
                );
                break 'rounds;
            }
        }
    }

    Outcome {
        stats,
        violation,
        hash,
        events,
    }
}

// ---------------------------------------------------------------------------------------
// minimisation: greedy, keeps a candidate only while the same kind of violation persists

pub fn shrink(history: &History, violation: &Violation) -> (History, Violation) {
    let mut best = history.clone();
    let mut best_v = violation.clone();
    let still_fails = |h: &History| -> Option<Violation> {
        run_script(h, &mut HashSet::new())
            .violation
            .filter(|v| v.kind == violation.kind)
    };
    // the recorded script must reproduce at all (it does: generation and replay share `run`)
    if let Some(v) = still_fails(&best) {
        best_v = v;
    } else {
        return (best, best_v);
    }
    let mut progress = true;
    while progress {
        progress = false;
        // 1. cut the script short
        let mut len = best.script.len();
        while len > 0 {
            let mut cand = best.clone();
            cand.script.truncate(len - 1);
            if let Some(v) = still_fails(&cand) {
                best = cand;
                best_v = v;
                progress = true;
                len = best.script.len();
            } else {
                break;
            }
        }
        // 2. drop single decisions
        let mut i = 0;
        while i < best.script.len() {
            let mut cand = best.clone();
            cand.script.remove(i);
            if let Some(v) = still_fails(&cand) {
                best = cand;
                best_v = v;
                progress = true;
            } else {
                i += 1;
            }
        }
        // 3. simplify decisions: Deps -> Complete, fewer dependencies
        for i in 0..best.script.len() {
            if let Decision::Deps(deps) = best.script[i].clone() {
                let mut cand = best.clone();
                cand.script[i] = Decision::Complete;
                if let Some(v) = still_fails(&cand) {
                    best = cand;
                    best_v = v;
                    progress = true;
                    continue;
                }
                let mut deps = deps;
                let mut j = 0;
                while deps.len() > 1 && j < deps.len() {
                    let mut fewer = deps.clone();
                    fewer.remove(j);
                    let mut cand = best.clone();
                    cand.script[i] = Decision::Deps(fewer.clone());
                    if let Some(v) = still_fails(&cand) {
                        best = cand;
                        best_v = v;
                        deps = fewer;
                        progress = true;
                    } else {
                        j += 1;
                    }
                }
            }
        }
        // 4. fewer initial items
        let mut i = 0;
        while best.init.len() > 1 && i < best.init.len() {
            let mut cand = best.clone();
            cand.init.remove(i);
            if let Some(v) = still_fails(&cand) {
                best = cand;
                best_v = v;
                progress = true;
            } else {
                i += 1;
            }
        }
        // 5. plain order for cycle-breaking rounds
        if best.cyc_order != CycOrder::AsOffered {
            let mut cand = best.clone();
            cand.cyc_order = CycOrder::AsOffered;
            if let Some(v) = still_fails(&cand) {
                best = cand;
                best_v = v;
                progress = true;
            }
        }
    }
    (best, best_v)
}

// ---------------------------------------------------------------------------------------
// (de)serialisation

pub fn history_to_json(h: &History) -> Value {
    json!({
        "universe": h.universe,
        "init": h.init,
        "cyc_order": match h.cyc_order { CycOrder::AsOffered => "as_offered", CycOrder::Ascending => "ascending", CycOrder::Descending => "descending" },
        "offprotocol": h.offprotocol,
        "script": h.script.iter().map(|d| match d {
            Decision::Complete => json!("complete"),
            Decision::Deps(deps) => json!({"deps": deps}),
        }).collect::<Vec<_>>(),
    })
}

pub fn history_from_json(v: &Value) -> Option<History> {
    let universe = v["universe"].as_u64()? as u32;
    if !(1..=7).contains(&universe) {
        return None;
    }
    let init = v["init"]
        .as_array()?
        .iter()
        .map(|x| x.as_u64().map(|x| x as u32))
        .collect::<Option<Vec<_>>>()?;
    let cyc_order = match v["cyc_order"].as_str()? {
        "as_offered" => CycOrder::AsOffered,
        "ascending" => CycOrder::Ascending,
        "descending" => CycOrder::Descending,
        _ => return None,
    };
    let script = v["script"]
        .as_array()?
        .iter()
        .map(|d| {
            if d.as_str() == Some("complete") {
                Some(Decision::Complete)
            } else {
                d["deps"]
                    .as_array()?
                    .iter()
                    .map(|x| x.as_u64().map(|x| x as u32))
                    .collect::<Option<Vec<_>>>()
                    .map(Decision::Deps)
            }
        })
        .collect::<Option<Vec<_>>>()?;
    Some(History {
        universe,
        init,
        script,
        cyc_order,
        offprotocol: v["offprotocol"].as_bool().unwrap_or(false),
    })
}

pub fn history_json(h: &History, o: &Outcome) -> Value {
    json!({"history": history_to_json(h), "events": o.events})
}
