//! C26 part (b): recorded histories of the *real* checker.
//!
//! Hook H1 (`crates/hir_ty/src/verif_trace.rs`, `--cfg capy_verif`) writes one line per
//! scheduler event of `InferenceCtx::finish`. Each recorded history is replayed, step by step,
//! into (1) the reference model and (2) a fresh `TopoSort`, and at every round the three are
//! compared: what the real checker was offered, what the model says is ready, and what a fresh
//! TopoSort fed the same registrations offers. The round loop's own obligations are checked
//! too: every offered item is run exactly once per round, in the offered order, and is either
//! removed or re-registered before the next round; the loop ends exactly when nothing is
//! pending.

use std::collections::{BTreeSet, HashMap};
use std::path::{Path, PathBuf};

use serde_json::{json, Value};
use topo::TopoSort;

use crate::model::Model;

#[derive(Default)]
struct TraceStats {
    traces: u64,
    complete_traces: u64,
    truncated_traces: u64,
    empty_traces: u64,
    events: u64,
    rounds: u64,
    blocked_rounds: u64,
    cyclic_rounds: u64,
    restarts: u64,
    completions: u64,
    cycle_breaking_completions: u64,
    registrations: u64,
    duplicate_registrations: u64,
    self_deps: u64,
    new_item_registrations: u64,
    deps_on_completed_items: u64,
    max_items: u64,
    max_rounds: u64,
}

struct Interner {
    ids: HashMap<String, u32>,
    names: Vec<String>,
}

impl Interner {
    fn get(&mut self, item: &str) -> u32 {
        let (id, name) = item.split_once('~').unwrap_or((item, item));
        if let Some(x) = self.ids.get(id) {
            return *x;
        }
        let n = self.names.len() as u32;
        self.ids.insert(id.to_string(), n);
        self.names.push(name.to_string());
        n
    }
    fn list(&mut self, field: &str) -> Vec<u32> {
        if field.is_empty() {
            Vec::new()
        } else {
            field.split('|').map(|i| self.get(i)).collect()
        }
    }
    fn show(&self, xs: impl IntoIterator<Item = u32>) -> String {
        let v: Vec<&str> = xs
            .into_iter()
            .map(|x| self.names[x as usize].as_str())
            .collect();
        format!("[{}]", v.join(", "))
    }
}

/// Ok(complete?) or Err((kind, detail, line number))
fn check_one(text: &str, st: &mut TraceStats) -> Result<bool, (String, String, usize)> {
    let mut names = Interner {
        ids: HashMap::new(),
        names: Vec::new(),
    };
    let mut model: Model<u32> = Model::new();
    let mut fresh: TopoSort<u32> = TopoSort::new();
    // items offered in the current round that have not been run yet, in order
    let mut to_run: Vec<u32> = Vec::new();
    let mut round_list: Option<(bool, BTreeSet<u32>)> = None; // (cyclic, set) waiting for `offered`
    let mut started = false;
    let mut ended = false;
    let mut rounds_here = 0u64;

    macro_rules! bad {
        ($ln:expr, $kind:expr, $($arg:tt)*) => {
            return Err(($kind.to_string(), format!($($arg)*), $ln))
        };
    }

    for (idx, line) in text.lines().enumerate() {
        let ln = idx + 1;
        if line.is_empty() {
            continue;
        }
        st.events += 1;
        let f: Vec<&str> = line.split('\t').collect();
        if ended {
            bad!(ln, "trace-after-end", "event after `end`: {line}");
        }
        match f[0] {
            "start" => {
                if started {
                    bad!(ln, "trace-format", "second `start` in one trace");
                }
                started = true;
                let len: usize = f.get(1).and_then(|x| x.parse().ok()).unwrap_or(usize::MAX);
                let items = names.list(f.get(2).copied().unwrap_or(""));
                let set: BTreeSet<u32> = items.iter().copied().collect();
                if set.len() != items.len() {
                    bad!(ln, "start-duplicates", "initial items are not distinct");
                }
                if len != items.len() {
                    bad!(
                        ln,
                        "len-mismatch",
                        "after extend len() = {len} but {} items were offered as ready",
                        items.len()
                    );
                }
                fresh.extend(items.iter().copied());
                for x in items {
                    model.add(x);
                }
            }
            "round" => {
                if !started {
                    bad!(ln, "trace-format", "`round` before `start`");
                }
                if !to_run.is_empty() {
                    bad!(
                        ln,
                        "offered-item-not-run",
                        "a new round starts but {} offered in the previous round were neither completed nor re-registered",
                        names.show(to_run.iter().copied())
                    );
                }
                if round_list.is_some() {
                    bad!(ln, "trace-format", "`round` without `offered`");
                }
                st.rounds += 1;
                rounds_here += 1;
                let len: usize = f.get(1).and_then(|x| x.parse().ok()).unwrap_or(usize::MAX);
                if len != model.pending.len() {
                    bad!(
                        ln,
                        "len-mismatch",
                        "len() = {len} but {} items are pending",
                        model.pending.len()
                    );
                }
                if model.pending.is_empty() {
                    bad!(ln, "round-after-empty", "a round starts although nothing is pending");
                }
                let ready = model.ready();
                if ready.len() < model.pending.len() {
                    st.blocked_rounds += 1;
                }
                let fresh_peek: Result<BTreeSet<u32>, ()> = fresh
                    .peek_all()
                    .map(|l| l.into_iter().copied().collect())
                    .map_err(|_| ());
                match f.get(2).copied() {
                    Some("ok") => {
                        let items = names.list(f.get(3).copied().unwrap_or(""));
                        let set: BTreeSet<u32> = items.iter().copied().collect();
                        if set.len() != items.len() {
                            bad!(ln, "offered-twice", "an item is offered twice in one round");
                        }
                        if model.cycle() {
                            bad!(
                                ln,
                                "cycle-not-reported",
                                "every pending item waits on a pending item but the round offered {}",
                                names.show(items)
                            );
                        }
                        if set != ready {
                            let extra: Vec<u32> = set.difference(&ready).copied().collect();
                            let missing: Vec<u32> = ready.difference(&set).copied().collect();
                            if !extra.is_empty() {
                                bad!(
                                    ln,
                                    "offered-not-ready",
                                    "offered {} which {}",
                                    names.show(extra.clone()),
                                    if extra.iter().any(|x| !model.is_pending(x)) {
                                        "is not pending (completed and not re-registered)"
                                    } else {
                                        "still waits on a pending item"
                                    }
                                );
                            }
                            bad!(
                                ln,
                                "ready-not-offered",
                                "{} is ready but was not offered",
                                names.show(missing)
                            );
                        }
                        if fresh_peek != Ok(set.clone()) {
                            bad!(
                                ln,
                                "replay-divergence",
                                "a fresh TopoSort fed the same history offers something else than the recorded run"
                            );
                        }
                        round_list = Some((false, set));
                    }
                    Some("cycle") => {
                        st.cyclic_rounds += 1;
                        let in_cycle = f.get(3).copied() == Some("in_cycle=true");
                        let items = names.list(f.get(4).copied().unwrap_or(""));
                        let set: BTreeSet<u32> = items.iter().copied().collect();
                        if !model.cycle() {
                            bad!(
                                ln,
                                "spurious-cycle",
                                "a cycle was reported but {} are ready",
                                names.show(ready)
                            );
                        }
                        if !in_cycle {
                            bad!(ln, "in-cycle-mismatch", "peek_all() reported a cycle but in_cycle() is false");
                        }
                        if items.is_empty() {
                            bad!(ln, "cyclic-list-empty", "peek_all_cyclic() offered nothing");
                        }
                        if set.len() != items.len() {
                            bad!(ln, "offered-twice", "an item is offered twice in one round");
                        }
                        if !set.is_subset(&model.pending_set()) {
                            bad!(
                                ln,
                                "offered-not-pending",
                                "the cycle-breaking round offers {} which is not pending",
                                names.show(set.difference(&model.pending_set()).copied().collect::<Vec<_>>())
                            );
                        }
                        if fresh_peek.is_ok() {
                            bad!(
                                ln,
                                "replay-divergence",
                                "a fresh TopoSort fed the same history reports no cycle"
                            );
                        }
                        round_list = Some((true, set));
                    }
                    _ => bad!(ln, "trace-format", "bad round line: {line}"),
                }
            }
            "offered" => {
                let Some((_cyclic, set)) = round_list.take() else {
                    bad!(ln, "trace-format", "`offered` without `round`");
                };
                let items = names.list(f.get(1).copied().unwrap_or(""));
                let offered_set: BTreeSet<u32> = items.iter().copied().collect();
                if offered_set.len() != items.len() {
                    bad!(ln, "offered-twice", "the loop runs an item twice in one round");
                }
                if offered_set != set {
                    bad!(
                        ln,
                        "loop-runs-other-items",
                        "the scheduler offered {} but the loop is going to run {}",
                        names.show(set),
                        names.show(items)
                    );
                }
                to_run = items;
            }
            "done" | "deps" => {
                let item = names.get(f.get(1).copied().unwrap_or(""));
                if to_run.first() != Some(&item) {
                    bad!(
                        ln,
                        "ran-item-not-offered",
                        "{} was run but the next offered item is {}",
                        names.show([item]),
                        names.show(to_run.first().copied())
                    );
                }
                to_run.remove(0);
                let len: usize = f.get(2).and_then(|x| x.parse().ok()).unwrap_or(usize::MAX);
                if f[0] == "done" {
                    st.completions += 1;
                    if model.waits(&item) {
                        st.cycle_breaking_completions += 1;
                    }
                    let a = model.complete(&item);
                    let b = fresh.remove(&item);
                    if !a || !b {
                        bad!(ln, "remove-mismatch", "completed item was not pending");
                    }
                } else {
                    st.restarts += 1;
                    let deps = names.list(f.get(3).copied().unwrap_or(""));
                    if deps.is_empty() {
                        // the item stays pending with nothing new to wait for; it is simply
                        // offered again. Allowed, but worth counting.
                    }
                    fresh.insert_deps(item, deps.iter().copied());
                    for d in deps {
                        st.registrations += 1;
                        if d == item {
                            st.self_deps += 1;
                        }
                        if model.completed.contains(&d) {
                            st.deps_on_completed_items += 1;
                        } else if !model.is_pending(&d) {
                            st.new_item_registrations += 1;
                        }
                        if !model.register(item, d) {
                            st.duplicate_registrations += 1;
                        }
                    }
                }
                if len != model.pending.len() || fresh.len() != len {
                    bad!(
                        ln,
                        "len-mismatch",
                        "len() = {len}, fresh TopoSort len() = {}, pending = {}",
                        fresh.len(),
                        model.pending.len()
                    );
                }
            }
            "end" => {
                if !to_run.is_empty() {
                    bad!(
                        ln,
                        "offered-item-not-run",
                        "the loop ended but {} were offered and never run",
                        names.show(to_run.iter().copied())
                    );
                }
                if !model.pending.is_empty() {
                    bad!(
                        ln,
                        "ended-with-pending-items",
                        "the loop ended but {} are still pending",
                        names.show(model.pending.iter().copied())
                    );
                }
                ended = true;
            }
            _ => bad!(ln, "trace-format", "unknown event: {line}"),
        }
    }
    st.max_items = st.max_items.max(names.names.len() as u64);
    st.max_rounds = st.max_rounds.max(rounds_here);
    if !started {
        st.empty_traces += 1;
        return Ok(false);
    }
    if !ended && model.pending.is_empty() && rounds_here == 0 {
        // `finish` returns before the loop when there is nothing to infer
        return Ok(true);
    }
    Ok(ended)
}

fn collect(path: &Path, out: &mut Vec<PathBuf>) {
    if path.is_dir() {
        let mut entries: Vec<PathBuf> = std::fs::read_dir(path)
            .map(|rd| rd.filter_map(|e| e.ok().map(|e| e.path())).collect())
            .unwrap_or_default();
        entries.sort();
        for e in entries {
            collect(&e, out);
        }
    } else if path.extension().map(|e| e == "trace").unwrap_or(false) || path.is_file() {
        out.push(path.to_path_buf());
    }
}

pub fn cmd_trace(args: &[String]) -> i32 {
    let mut out_file = None;
    let mut files = Vec::new();
    let mut i = 0;
    while i < args.len() {
        if args[i] == "--out" {
            out_file = args.get(i + 1).cloned();
            i += 2;
        } else {
            collect(Path::new(&args[i]), &mut files);
            i += 1;
        }
    }
    let mut st = TraceStats::default();
    let mut violations = Vec::new();
    for file in &files {
        let Ok(text) = std::fs::read_to_string(file) else {
            eprintln!("cannot read {}", file.display());
            return 2;
        };
        st.traces += 1;
        match check_one(&text, &mut st) {
            Ok(true) => st.complete_traces += 1,
            Ok(false) => st.truncated_traces += 1,
            Err((kind, detail, line)) => {
                println!(
                    "TOPOSIM-TRACE-VIOLATION kind={} file={} line={} detail={}",
                    kind,
                    file.display(),
                    line,
                    detail
                );
                violations.push(json!({"kind": kind, "detail": detail, "file": file.display().to_string(), "line": line}));
            }
        }
    }
    let summary: Value = json!({
        "traces": st.traces,
        "complete_traces": st.complete_traces,
        "truncated_traces": st.truncated_traces,
        "empty_traces": st.empty_traces,
        "events": st.events,
        "rounds": st.rounds,
        "blocked_rounds": st.blocked_rounds,
        "cyclic_rounds": st.cyclic_rounds,
        "restarts": st.restarts,
        "completions": st.completions,
        "cycle_breaking_completions": st.cycle_breaking_completions,
        "registrations": st.registrations,
        "duplicate_registrations": st.duplicate_registrations,
        "self_deps": st.self_deps,
        "new_item_registrations": st.new_item_registrations,
        "deps_on_completed_items": st.deps_on_completed_items,
        "max_items_in_one_trace": st.max_items,
        "max_rounds_in_one_trace": st.max_rounds,
        "violations": violations,
    });
    let text = serde_json::to_string_pretty(&summary).unwrap();
    match out_file {
        Some(p) => {
            if std::fs::write(&p, &text).is_err() {
                eprintln!("cannot write {p}");
                return 2;
            }
        }
        None => println!("{text}"),
    }
    if violations.is_empty() {
        0
    } else {
        1
    }
}
